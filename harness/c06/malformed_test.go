//go:build verif

package c06

import (
	"context"
	"encoding/binary"
	"fmt"
	"math"
	"testing"
	"time"
	"unicode/utf8"

	"pgregory.net/rapid"

	"github.com/grafana/dskit/kv/memberlist"
	"github.com/grafana/dskit/ring"

	"verifharness/internal/gossip"
	"verifharness/internal/vx"
)

// seedCluster: two nodes; node 0 holds some state, whose broadcasts and full state are the raw material.
func seedCluster(b *vx.B) (*gossip.Cluster, [][]byte, []byte) {
	c := gossip.NewCluster(b, 3, nil)
	ctx := context.Background()
	for i, id := range []string{"a", "b", "c"} {
		_ = c.RingC[0].CAS(ctx, gossip.RingKey, func(in interface{}) (interface{}, bool, error) {
			d := ring.GetOrCreateRingDesc(in)
			d.Ingesters[id] = ring.InstanceDesc{Id: id, Addr: id, Timestamp: time.Now().Unix(), State: ring.ACTIVE, Tokens: []uint32{uint32(i*10 + 1), uint32(i*10 + 2)}}
			return d, true, nil
		})
	}
	_ = c.RingC[0].CAS(ctx, gossip.RingKey, func(in interface{}) (interface{}, bool, error) {
		d := ring.GetOrCreateRingDesc(in)
		d.RemoveIngester("b")
		return d, true, nil
	})
	_ = c.PRingC[0].CAS(ctx, gossip.PRingKey, func(in interface{}) (interface{}, bool, error) {
		d := ring.GetOrCreatePartitionRingDesc(in)
		d.AddPartition(1, ring.PartitionActive, time.Now())
		pd := d.Partitions[1]
		pd.Tokens = pd.Tokens[:3]
		d.Partitions[1] = pd
		d.AddOrUpdateOwner("o1", ring.OwnerActive, 1, time.Now())
		return d, true, nil
	})
	vx.Wait()
	watch1 = []*gossip.Watch{c.AddWatch(1, gossip.RingKey, false, true), c.AddWatch(1, gossip.PRingKey, false, false)}
	for _, w := range watch1 {
		changedKey(c, w.Key, w)
	}
	var msgs [][]byte
	for _, w := range c.GossipRound(0, math.MaxInt32) {
		msgs = append(msgs, w.Data)
	}
	return c, msgs, c.Nodes[0].LocalState(false)
}

// wellFormedPairs returns the pairs of a full-state blob that a receiver may merge: those before the
// first framing / unmarshal error, minus pairs with an empty or non-UTF-8 key, unknown codec or
// undecodable value.
func wellFormedPairs(blob []byte) (pairs [][]byte) {
	b := blob
	for len(b) > 0 {
		if len(b) < 4 {
			return
		}
		n := binary.BigEndian.Uint32(b)
		b = b[4:]
		if uint64(len(b)) < uint64(n) {
			return
		}
		raw := b[:n]
		b = b[n:]
		var p memberlist.KeyValuePair
		if err := p.Unmarshal(raw); err != nil {
			return
		}
		if gossip.Malformed(raw) || !utf8.ValidString(p.Key) {
			continue
		}
		pairs = append(pairs, raw)
	}
	return
}

func mutate(rt *rapid.T, data []byte) []byte {
	d := append([]byte(nil), data...)
	for k := rapid.IntRange(1, 3).Draw(rt, "mutations"); k > 0; k-- {
		switch rapid.IntRange(0, 6).Draw(rt, "mutation") {
		case 0:
			d = d[:rapid.IntRange(0, len(d)).Draw(rt, "truncate")]
		case 1:
			if len(d) > 0 {
				i := rapid.IntRange(0, len(d)-1).Draw(rt, "flipAt")
				d[i] ^= 1 << uint(rapid.IntRange(0, 7).Draw(rt, "bit"))
			}
		case 2:
			if len(d) > 0 {
				i := rapid.IntRange(0, len(d)-1).Draw(rt, "setAt")
				d[i] = rapid.SampledFrom([]byte{0, 0xff, 0x80, 0x7f, 1}).Draw(rt, "hostileByte")
			}
		case 3:
			i := rapid.IntRange(0, len(d)).Draw(rt, "insertAt")
			ins := rapid.SliceOfN(rapid.Byte(), 1, 8).Draw(rt, "insert")
			d = append(d[:i:i], append(ins, d[i:]...)...)
		case 4:
			if len(d) >= 4 { // hostile length prefix
				binary.BigEndian.PutUint32(d, rapid.SampledFrom([]uint32{0, 1, 0xffffffff, 0x7fffffff, uint32(len(d)), uint32(len(d)) - 3}).Draw(rt, "lenPrefix"))
			}
		case 5:
			d = append(d, d...)
		default:
			d = rapid.SliceOfN(rapid.Byte(), 0, 64).Draw(rt, "random")
		}
	}
	return d
}

// checkInbound feeds data to node 1 through one of the two receive paths and checks the result.
var watch1 []*gossip.Watch

// changedKey reports whether the visible value of the watcher's key differs from what it saw last.
func changedKey(c *gossip.Cluster, key string, w *gossip.Watch) bool {
	r, p := c.State(1)
	var cur string
	if key == gossip.RingKey {
		cur = gossip.VisibleOf(r, ring.NewPartitionRingDesc())
	} else {
		cur = gossip.VisibleOf(ring.NewDesc(), p)
	}
	changed := cur != w.SeenValue
	_, calls, _ := w.Snapshot()
	w.SeenValue, w.SeenCalls = cur, calls
	return changed
}

func checkInbound(c *gossip.Cluster, data []byte, full bool) (err error) {
	before := c.Canon(1)
	visBefore, _ := c.Visible(1)
	defer func() {
		// whatever the node learned from the input, it tells its watchers and its peers
		if err != nil || c.Canon(1) == before {
			return
		}
		time.Sleep(3 * time.Second)
		vx.Wait()
		if l, g := c.Nodes[1].VerifQueued(); l+g == 0 && len(c.GossipRound(1, math.MaxInt32)) == 0 {
			// (GossipRound may already have drained the queue in an earlier call: look at the pool too)
			err = fmt.Errorf("the node's state changed through inbound data but it queued nothing to tell its peers")
			return
		}
		vis, _ := c.Visible(1)
		if vis == visBefore {
			return
		}
		for _, w := range watch1 {
			last, calls, _ := w.Snapshot()
			want := ""
			if r, p := c.State(1); w.Key == gossip.RingKey {
				want = gossip.VisibleOf(r, ring.NewPartitionRingDesc())
			} else {
				want = gossip.VisibleOf(ring.NewDesc(), p)
			}
			_ = want
			if calls == w.SeenCalls && changedKey(c, w.Key, w) {
				err = fmt.Errorf("the value of key %q changed through inbound data but its watcher was not called (calls=%d, last=%v)", w.Key, calls, last)
				return
			}
		}
	}()
	if full {
		// reference: a twin node with the same state receives the well-formed pairs one by one
		c.PushPull(1, 2)
		twinBefore := c.Canon(2)
		if twinBefore != before {
			return fmt.Errorf("harness: twin node differs")
		}
		c.Nodes[1].MergeRemoteState(data, false)
		vx.Wait()
		for _, raw := range wellFormedPairs(data) {
			c.Nodes[2].NotifyMsg(raw)
			vx.Wait()
		}
		if got, want := c.Canon(1), c.Canon(2); got != want {
			return fmt.Errorf("full-state exchange of %d bytes left the node with %s; merging only its well-formed pairs gives %s", len(data), got, want)
		}
	} else {
		c.Nodes[1].NotifyMsg(data)
		vx.Wait()
		if gossip.Malformed(data) {
			if after := c.Canon(1); after != before {
				return fmt.Errorf("malformed message changed the stored state: %s -> %s", before, after)
			}
		}
	}
	// the node keeps working: it is still readable and accepts a good update
	if _, err := c.Visible(1); err != nil {
		return err
	}
	// no key appears that no well-formed pair named
	keys, _ := c.RingC[1].List(context.Background(), "")
	for _, k := range keys {
		if k != gossip.RingKey && k != gossip.PRingKey && (k == "" || !utf8.ValidString(k)) {
			return fmt.Errorf("the store now lists the invalid key %q", k)
		}
	}
	return nil
}

func frame(pairs ...memberlist.KeyValuePair) []byte {
	var out []byte
	for _, p := range pairs {
		raw, _ := p.Marshal()
		var l [4]byte
		binary.BigEndian.PutUint32(l[:], uint32(len(raw)))
		out = append(append(out, l[:]...), raw...)
	}
	return out
}

// TestHostilePairs: hand-built pairs with an empty key, a non-UTF-8 key, an unknown codec, through both paths.
func TestHostilePairs(t *testing.T) {
	vx.Bubble(t, func(b *vx.B) {
		c, msgs, _ := seedCluster(b)
		var good memberlist.KeyValuePair
		for _, m := range msgs {
			var p memberlist.KeyValuePair
			if p.Unmarshal(m) == nil && p.Key == gossip.RingKey {
				good = p
			}
		}
		if good.Key == "" {
			t.Fatalf("harness: no ring message")
		}
		for _, tc := range []struct {
			name string
			edit func(p *memberlist.KeyValuePair)
		}{
			{"empty key", func(p *memberlist.KeyValuePair) { p.Key = "" }},
			{"non-UTF-8 key", func(p *memberlist.KeyValuePair) { p.Key = "r\xffng\xf2" }},
			{"unknown codec", func(p *memberlist.KeyValuePair) { p.Codec = "nope" }},
			{"garbage value", func(p *memberlist.KeyValuePair) { p.Value = []byte{0xff, 0xff, 0xff, 0xff, 0x01} }},
		} {
			p := good
			tc.edit(&p)
			raw, _ := p.Marshal()
			vx.Eval(2)
			vx.NonTrivial(vx.FP("hostile", tc.name))
			if err := checkInbound(c, raw, false); err != nil {
				t.Fatalf("%s as gossip message: %v", tc.name, err)
			}
			if err := checkInbound(c, frame(p, good), true); err != nil {
				t.Fatalf("%s inside a full-state exchange: %v", tc.name, err)
			}
		}
	})
}

func TestMalformedInboundRapid(t *testing.T) {
	rapid.Check(t, func(rt *rapid.T) {
		var failure string
		vx.Bubble(t, func(b *vx.B) {
			c, msgs, blob := seedCluster(b)
			if len(msgs) == 0 {
				failure = "harness: no seed messages"
				return
			}
			n := rapid.IntRange(1, 12).Draw(rt, "inputs")
			for i := 0; i < n && failure == ""; i++ {
				full := rapid.Bool().Draw(rt, "fullState")
				var data []byte
				if full {
					data = mutate(rt, blob)
				} else {
					data = mutate(rt, msgs[rapid.IntRange(0, len(msgs)-1).Draw(rt, "seedMsg")])
				}
				vx.Eval(1)
				mal := !full && gossip.Malformed(data)
				if full {
					mal = len(wellFormedPairs(data)) < 2
				}
				if mal {
					vx.NonTrivial(vx.FP("mal", full, string(data)))
					vx.Class("malformed_inputs", 1)
				} else {
					vx.Class("still_wellformed_inputs", 1)
				}
				if err := checkInbound(c, data, full); err != nil {
					failure = fmt.Sprintf("input %d (fullState=%v, %d bytes %q): %v", i, full, len(data), data, err)
				}
			}
			if failure != "" {
				return
			}
			// after all that, a genuine exchange still works
			c.PushPull(0, 1)
			if c.Canon(1) == "" {
				failure = "node unusable after malformed input"
			}
		})
		if failure != "" {
			rt.Fatalf("%s", failure)
		}
	})
}

// FuzzInbound: coverage-guided bytes through both receive paths (thorough tier).
func FuzzInbound(f *testing.F) {
	f.Add([]byte{}, false)
	f.Add([]byte{0, 0, 0, 1, 0}, true)
	f.Add([]byte{0xff, 0xff, 0xff, 0xff}, true)
	f.Add([]byte("\x0a\x04ring\x12\x00\x1a\x08ringDesc"), false)
	f.Add([]byte("\x0a\x04r\xffng\x1a\x08ringDesc"), false)
	f.Add([]byte("\x0a\x00\x1a\x08ringDesc"), false)
	f.Add([]byte("\x0a\x04ring\x1a\x04nope"), false)
	f.Fuzz(func(t *testing.T, data []byte, full bool) {
		vx.Bubble(t, func(b *vx.B) {
			c, msgs, blob := seedCluster(b)
			// also splice the fuzz bytes into real material
			inputs := [][]byte{data}
			if len(msgs) > 0 && len(data) > 0 {
				m := append([]byte(nil), msgs[int(data[0])%len(msgs)]...)
				if len(m) > 0 {
					m[int(data[len(data)-1])%len(m)] ^= data[0]
				}
				inputs = append(inputs, m)
			}
			if full {
				inputs = append(inputs, append(append([]byte(nil), blob[:len(blob)/2]...), data...))
			}
			for _, in := range inputs {
				if err := checkInbound(c, in, full); err != nil {
					t.Fatalf("%d bytes %q: %v", len(in), in, err)
				}
			}
		})
	})
}
