//go:build verif

// Package c06: a gossiping KV cluster converges after any loss, reordering or partition.
package c06

import (
	"context"
	"fmt"
	"math"
	"strings"
	"testing"
	"time"

	"pgregory.net/rapid"

	"github.com/grafana/dskit/kv/memberlist"
	"github.com/grafana/dskit/ring"

	"verifharness/internal/gossip"
	"verifharness/internal/model"
	"verifharness/internal/vx"
)

func TestMain(m *testing.M) {
	vx.Rule("a history is non-trivial when it contains >= 1 dropped or out-of-order delivery, >= 1 partition or node restart, and CAS calls on the same key from >= 2 nodes; malformed input: a message that fails the harness's own decoding; distinct = distinct history fingerprint")
	vx.Assume("hashicorp/memberlist's peer selection, probing and transport are replaced by the harness, which calls the exported delegate methods (GetBroadcasts, NotifyMsg, LocalState, MergeRemoteState) of detached KV nodes")
	vx.Assume("'eventually' is decided as: after the network heals, loss-free gossip rounds with full fan-out plus two push/pull sweeps over all ordered pairs reach quiescence within 40 rounds")
	vx.Assume("single writer per instance / partition / owner (its home node); removals may happen on any node; a restarted node waits > 1 s before writing again; token pools are disjoint")
	vx.Assume("a corrupted message that still decodes is by definition well-formed: only 'no crash' is asserted for the rest of such a history")
	vx.Main(m)
}

func TestClusterHistoriesRapid(t *testing.T) {
	rapid.Check(t, func(rt *rapid.T) {
		var res *gossip.Result
		vx.Bubble(t, func(b *vx.B) {
			res = gossip.RunHistory(rt, b, gossip.Opts{MinNodes: 2, MaxNodes: 6, MaxSteps: vx.Pick(60, 90), Faults: true, Flow: true})
		})
		vx.Eval(1)
		for k, v := range res.Stats {
			vx.Class(k, v)
		}
		if res.DroppedOrReordered > 0 && res.PartitionsOrRestart > 0 && res.MultiNodeCAS {
			vx.NonTrivial(vx.FP(strings.Join(res.History, "\n")))
		}
		if res.Failure != "" {
			rt.Fatalf("%s\nhistory:\n%s", res.Failure, strings.Join(res.History, "\n"))
		}
		if vx.WantSample("cluster_history") && len(res.History) <= 14 && res.DroppedOrReordered > 0 {
			vx.Sample("cluster_history", res.History)
		}
	})
}

// TestGossipOnlyRapid: no loss, no push/pull: every acknowledged CAS must reach every node through
// rebroadcasts alone, whatever byte budgets delay them. A queued update that is superseded by one
// that does not contain it would be lost here.
func TestGossipOnlyRapid(t *testing.T) {
	rapid.Check(t, func(rt *rapid.T) {
		var failure string
		var hist []string
		vx.Bubble(t, func(b *vx.B) {
			n := rapid.IntRange(2, 5).Draw(rt, "nodes")
			c := gossip.NewCluster(b, n, func(cfg *memberlist.KVConfig) { cfg.RetransmitMult = rapid.IntRange(1, 3).Draw(rt, "retransmit") })
			ids := []string{"a", "b", "c", "d", "e"}
			steps := rapid.IntRange(3, 40).Draw(rt, "steps")
			deliverAll := func(from int, limit int) {
				for _, m := range c.GossipRound(from, limit) {
					for j := 0; j < n; j++ {
						if j != from {
							c.Deliver(m, j)
						}
					}
				}
			}
			for s := 0; s < steps; s++ {
				switch rapid.IntRange(0, 7).Draw(rt, "op") {
				case 0, 1, 2:
					idx := rapid.IntRange(0, len(ids)-1).Draw(rt, "instance")
					home := idx % n
					remove := rapid.IntRange(0, 4).Draw(rt, "remove") == 0
					node := home
					if remove {
						node = rapid.IntRange(0, n-1).Draw(rt, "removeOn")
					}
					hist = append(hist, fmt.Sprintf("cas instance %s remove=%v on node %d", ids[idx], remove, node))
					_ = c.RingC[node].CAS(context.Background(), gossip.RingKey, func(in interface{}) (interface{}, bool, error) {
						d := ring.GetOrCreateRingDesc(in)
						if remove {
							if _, ok := d.Ingesters[ids[idx]]; !ok {
								return nil, false, nil
							}
							d.RemoveIngester(ids[idx])
							return d, true, nil
						}
						d.Ingesters[ids[idx]] = ring.InstanceDesc{Id: ids[idx], Addr: ids[idx], Timestamp: time.Now().Unix(), State: ring.ACTIVE, Tokens: []uint32{uint32(idx*10 + 1)}}
						return d, true, nil
					})
				case 3:
					from := rapid.IntRange(0, n-1).Draw(rt, "gossipFrom")
					limit := rapid.IntRange(30, 300).Draw(rt, "byteLimit")
					hist = append(hist, fmt.Sprintf("node %d gossips to everybody (limit %d bytes)", from, limit))
					deliverAll(from, limit)
				case 4:
					time.Sleep(time.Duration(rapid.IntRange(0, 2000).Draw(rt, "ms")) * time.Millisecond)
				case 5:
					// one update about several entities: a new partition together with its owner
					p := int32(rapid.IntRange(3, 6).Draw(rt, "newPartition"))
					home := int(p) % n
					hist = append(hist, fmt.Sprintf("cas partition %d + owner on node %d", p, home))
					_ = c.PRingC[home].CAS(context.Background(), gossip.PRingKey, func(in interface{}) (interface{}, bool, error) {
						d := ring.GetOrCreatePartitionRingDesc(in)
						if d.HasPartition(p) {
							return nil, false, nil
						}
						d.AddPartition(p, ring.PartitionPending, time.Now())
						pd := d.Partitions[p]
						pd.Tokens = pd.Tokens[:3]
						d.Partitions[p] = pd
						d.AddOrUpdateOwner(fmt.Sprintf("owner-%d", p), ring.OwnerActive, p, time.Now())
						return d, true, nil
					})
				default:
					p := int32(rapid.IntRange(0, 2).Draw(rt, "partition"))
					home := int(p) % n
					hist = append(hist, fmt.Sprintf("cas partition %d on node %d", p, home))
					_ = c.PRingC[home].CAS(context.Background(), gossip.PRingKey, func(in interface{}) (interface{}, bool, error) {
						d := ring.GetOrCreatePartitionRingDesc(in)
						if !d.HasPartition(p) {
							d.AddPartition(p, ring.PartitionPending, time.Now())
							pd := d.Partitions[p]
							pd.Tokens = pd.Tokens[:3]
							d.Partitions[p] = pd
							return d, true, nil
						}
						st := ring.PartitionActive
						if d.Partitions[p].State == ring.PartitionActive {
							st = ring.PartitionInactive
						}
						ch, err := d.UpdatePartitionState(p, st, time.Now())
						if !ch || err != nil {
							return nil, false, nil
						}
						return d, true, nil
					})
				}
				vx.Wait()
			}
			wantR, wantP := ring.NewDesc(), ring.NewPartitionRingDesc()
			for i := 0; i < n; i++ {
				r, p := c.State(i)
				wantR, wantP = model.JoinDesc(wantR, r), model.JoinPDesc(wantP, p)
			}
			for round := 0; round < 60; round++ {
				sent := 0
				for i := 0; i < n; i++ {
					l, g := c.Nodes[i].VerifQueued()
					sent += l + g
					deliverAll(i, math.MaxInt32)
				}
				if sent == 0 {
					break
				}
			}
			want := "ring[" + model.CanonDescN(wantR) + "] pring[" + model.CanonPDescN(wantP) + "]"
			for i := 0; i < n; i++ {
				if got := c.Canon(i); got != want {
					failure = fmt.Sprintf("rebroadcasts alone (no loss, full fan-out) did not bring node %d up to date:\n node : %s\n join : %s", i, got, want)
					return
				}
			}
		})
		vx.Eval(1)
		vx.Class("gossip_only_histories", 1)
		if failure != "" {
			rt.Fatalf("%s\nhistory:\n%s", failure, strings.Join(hist, "\n"))
		}
	})
}

// TestInvalidatesRapid: a queued update may be superseded only by an update that contains it.
func TestInvalidatesRapid(t *testing.T) {
	rapid.Check(t, func(rt *rapid.T) {
		names := []string{"a", "b", "c", "d"}
		key := rapid.SampledFrom([]string{"ring", "pring"}).Draw(rt, "key")
		oldKey := rapid.SampledFrom([]string{"ring", "pring"}).Draw(rt, "oldKey")
		// MergeContent lists may repeat names (the partition ring's starts with one empty string per entry)
		pool := append([]string{"", ""}, names...)
		content := rapid.SliceOfN(rapid.SampledFrom(pool), 0, 6).Draw(rt, "content")
		oldContent := rapid.SliceOfN(rapid.SampledFrom(pool), 0, 5).Draw(rt, "oldContent")
		version := uint(rapid.IntRange(0, 5).Draw(rt, "version"))
		oldVersion := uint(rapid.IntRange(0, 5).Draw(rt, "oldVersion"))
		got := memberlist.VerifBroadcastInvalidates(key, content, version, oldKey, oldContent, oldVersion)
		have := map[string]bool{}
		for _, c := range content {
			have[c] = true
		}
		contains := true
		for _, c := range oldContent {
			if !have[c] {
				contains = false
			}
		}
		vx.Eval(1)
		if key == oldKey && !contains {
			vx.NonTrivial(vx.FP("inv", key, fmt.Sprint(content), version, fmt.Sprint(oldContent), oldVersion))
		}
		if got && (key != oldKey || !contains || version < oldVersion) {
			rt.Fatalf("update (key %s, content %v, version %d) supersedes queued update (key %s, content %v, version %d) although it does not contain it", key, content, version, oldKey, oldContent, oldVersion)
		}
		if !got && key == oldKey && contains && version >= oldVersion {
			rt.Fatalf("update (key %s, content %v, version %d) contains queued update (content %v, version %d) but does not supersede it", key, content, version, oldContent, oldVersion)
		}
	})
}
