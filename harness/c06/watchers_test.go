//go:build verif

package c06

import (
	"context"
	"fmt"
	"sync"
	"testing"
	"time"

	"github.com/go-kit/log"
	"pgregory.net/rapid"

	"github.com/grafana/dskit/flagext"
	"github.com/grafana/dskit/kv/codec"
	"github.com/grafana/dskit/kv/memberlist"
	"github.com/grafana/dskit/ring"
	"github.com/grafana/dskit/services"

	"verifharness/internal/model"
	"verifharness/internal/vx"
)

// TestPrefixWatcherBufferRapid: a prefix watcher with a small notification buffer and a slow callback, many
// keys under the prefix. While the callback runs, changes of more keys than the buffer holds arrive: the
// surplus notifications may be lost (the buffer is documented as bounded). What may not happen is that the
// watcher stays deaf afterwards: once it is idle again, a change of ANY key is passed to it, and the last
// value it was called with for that key is the value readers see.
func TestPrefixWatcherBufferRapid(t *testing.T) {
	rapid.Check(t, func(rt *rapid.T) {
		buf := rapid.IntRange(1, 3).Draw(rt, "bufferSize")
		nKeys := rapid.IntRange(2, 6).Draw(rt, "keys")
		slow := time.Duration(rapid.SampledFrom([]int{500, 2000}).Draw(rt, "callbackMs")) * time.Millisecond
		rounds := rapid.IntRange(1, 3).Draw(rt, "bursts")
		var bursts [][]int
		for r := 0; r < rounds; r++ {
			bursts = append(bursts, rapid.SliceOfN(rapid.IntRange(0, nKeys-1), 1, 10).Draw(rt, "burst"))
		}
		var failure string
		overflowed := false
		vx.Bubble(t, func(b *vx.B) {
			var cfg memberlist.KVConfig
			flagext.DefaultValues(&cfg)
			cfg.Codecs = []codec.Codec{ring.GetCodec()}
			cfg.WatchPrefixBufferSize = buf
			mkv := memberlist.NewDetachedKV(cfg, log.NewNopLogger(), nil, func() int { return 1 })
			if err := services.StartAndAwaitRunning(context.Background(), mkv); err != nil {
				failure = err.Error()
				return
			}
			b.Cleanup(func() { _ = services.StopAndAwaitTerminated(context.Background(), mkv) })
			client, err := memberlist.NewClient(mkv, ring.GetCodec())
			if err != nil {
				failure = err.Error()
				return
			}
			var mu sync.Mutex
			last := map[string]string{}
			calls := 0
			curSlow := slow
			ctx, cancel := context.WithCancel(context.Background())
			b.Cleanup(func() {
				mu.Lock()
				curSlow = 0
				mu.Unlock()
				cancel()
				time.Sleep(5 * time.Second)
			})
			go client.WatchPrefix(ctx, "key-", func(k string, v interface{}) bool {
				d, _ := v.(*ring.Desc)
				mu.Lock()
				calls++
				last[k] = model.CanonDescN(d)
				s := curSlow
				mu.Unlock()
				time.Sleep(s)
				return true
			})
			vx.Wait()
			version := map[int]int64{}
			write := func(k int) {
				version[k]++
				ver := version[k]
				if err := client.CAS(context.Background(), fmt.Sprintf("key-%d", k), func(in interface{}) (interface{}, bool, error) {
					d := ring.GetOrCreateRingDesc(in)
					d.Ingesters["writer"] = ring.InstanceDesc{Addr: "w", Timestamp: ver, State: ring.ACTIVE}
					return d, true, nil
				}); err != nil && failure == "" {
					failure = fmt.Sprintf("CAS on key-%d: %v", k, err)
				}
			}
			for _, burst := range bursts {
				// a burst of changes, back to back, while the callback is busy with the first
				distinct := map[int]bool{}
				for _, k := range burst {
					write(k)
					distinct[k] = true
				}
				if len(distinct) > buf+1 {
					overflowed = true
				}
				// the watcher works off what it was handed and becomes idle
				time.Sleep(time.Duration(len(burst)+2)*slow + time.Second)
				vx.Wait()
			}
			// idle watcher: every key is changed once more, one at a time, with time for the callback in between
			for k := 0; k < nKeys; k++ {
				write(k)
				time.Sleep(slow + time.Second)
				vx.Wait()
				v, err := client.Get(context.Background(), fmt.Sprintf("key-%d", k))
				if err != nil {
					failure = err.Error()
					return
				}
				want := model.CanonDescN(v.(*ring.Desc))
				mu.Lock()
				got, ok := last[fmt.Sprintf("key-%d", k)]
				n := calls
				mu.Unlock()
				if !ok || got != want {
					failure = fmt.Sprintf("buffer %d, %d keys, callback %v, bursts %v: key-%d was changed while the watcher was idle, readers see %s, the watcher was last called for it with %q (called=%v, %d calls in all)", buf, nKeys, slow, bursts, k, want, got, ok, n)
					return
				}
			}
		})
		vx.Eval(1)
		if overflowed {
			vx.NonTrivial(vx.FP("prefix-overflow", buf, nKeys, slow, fmt.Sprint(bursts)))
			vx.Class("prefix_watcher_histories_with_more_keys_changing_than_the_buffer_holds", 1)
		}
		if failure != "" {
			rt.Fatalf("%s", failure)
		}
	})
}
