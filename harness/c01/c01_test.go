// Package c01: key lookup returns the consistent-hash replica set and its exact quorum slack.
package c01

import (
	"fmt"
	"sort"
	"testing"
	"time"

	"pgregory.net/rapid"

	"github.com/grafana/dskit/ring"

	"verifharness/internal/fakekv"
	"verifharness/internal/gen"
	"verifharness/internal/model"
	"verifharness/internal/vx"
)

func TestMain(m *testing.M) {
	vx.Rule("a lookup is non-trivial when the reference walk visits >= 2 instances and at least one of: key equals a token, the walk wraps, the set was extended, an unhealthy instance was filtered, a zone was skipped, RF exceeds the instances holding tokens; distinct = distinct (descriptor, key, op, RF, zone-awareness) fingerprint")
	vx.Assume("zone-awareness on with members that carry no zone: a member without a zone is in no availability zone, so the one-per-zone rule does not bind it (the reading the code's explicit empty-zone guard implements)")
	vx.Assume("per-call replication-factor overrides are outside the statement")
	vx.Assume("result order is not asserted, only the set and MaxErrors")
	vx.Main(m)
}

type opn struct {
	Name string
	Op   ring.Operation
}

var ops = []opn{{"Write", ring.Write}, {"WriteNoExtend", ring.WriteNoExtend}, {"Read", ring.Read}, {"Reporting", ring.Reporting}}

const timeoutSec = 60

func cfg(rf int, za bool) ring.Config {
	return ring.Config{HeartbeatTimeout: timeoutSec * time.Second, ReplicationFactor: rf, ZoneAwarenessEnabled: za}
}

func cfgOf(c lookupCase) ring.Config {
	out := cfg(c.RF, c.ZA)
	out.HeartbeatTimeout += time.Duration(c.TimeoutExtraMs) * time.Millisecond
	out.ExcludedZones = c.Excluded
	return out
}

type lookupCase struct {
	Ins []gen.Inst `json:"instances"`
	RF  int        `json:"rf"`
	ZA  bool       `json:"zone_aware"`
	// the lookups happen FracMs milliseconds past a whole second (heartbeat timestamps are whole
	// seconds), with a heartbeat timeout of timeoutSec seconds + TimeoutExtraMs milliseconds
	FracMs         int `json:"frac_ms"`
	TimeoutExtraMs int `json:"timeout_extra_ms"`
	// zones the client is configured to leave out: their instances are not part of the ring it sees
	Excluded []string `json:"excluded_zones,omitempty"`
}

// seen returns the instances that make up the ring for the client: all but those of excluded zones.
func (c lookupCase) seen() []gen.Inst {
	if len(c.Excluded) == 0 {
		return c.Ins
	}
	var out []gen.Inst
	for _, in := range c.Ins {
		ex := false
		for _, z := range c.Excluded {
			if z == in.Zone {
				ex = true
			}
		}
		if !ex {
			out = append(out, in)
		}
	}
	return out
}

func (c lookupCase) timeoutMs() int64 { return timeoutSec*1000 + int64(c.TimeoutExtraMs) }

func ids(rs ring.ReplicationSet) []string {
	out := make([]string, 0, len(rs.Instances))
	for _, in := range rs.Instances {
		out = append(out, in.Id)
	}
	sort.Strings(out)
	return out
}

// get queries the ring in one of four ways (buffer handling is an optimisation that must not matter).
func get(r *ring.Ring, key uint32, op ring.Operation, variant int) (ring.ReplicationSet, error) {
	switch variant % 4 {
	case 0:
		return r.Get(key, op, nil, nil, nil)
	case 1:
		d, h, z := ring.MakeBuffersForGet()
		return r.Get(key, op, d, h, z)
	case 2:
		// under-sized buffers force growth / the slice->map switch of the host set
		return r.Get(key, op, make([]ring.InstanceDesc, 0, 1), make([]string, 0, 1), make([]string, 0, 1))
	default:
		d, h, z := ring.MakeBuffersForGet()
		return r.GetWithOptions(key, op, ring.WithBuffers(d, h, z))
	}
}

// checkLookups compares every (key, op) lookup on r with the reference model. Returns the first
// disagreement as an error text. countNT receives fingerprints of non-trivial lookups.
func checkLookups(r *ring.Ring, c lookupCase, keys []uint32, record bool) error {
	for ki, key := range keys {
		for oi, o := range ops {
			w, exp := model.LookupAt(c.seen(), key, o.Op, c.RF, c.ZA, c.timeoutMs(), int64(c.FracMs))
			rs, err := get(r, key, o.Op, ki+oi)
			if record {
				vx.Eval(1)
				if len(w.IDs) >= 2 && (w.KeyIsTok || w.Wrapped || w.Extended || exp.Filtered || w.ZoneSkip || w.RFExceeds) {
					vx.NonTrivial(vx.FP(fmt.Sprint(c.Ins), c.RF, c.ZA, key, o.Name))
					if w.KeyIsTok {
						vx.Class("key_is_token", 1)
					}
					if w.Wrapped {
						vx.Class("wraps", 1)
					}
					if w.Extended {
						vx.Class("extended", 1)
					}
					if exp.Filtered {
						vx.Class("filtered_unhealthy", 1)
					}
					if w.ZoneSkip {
						vx.Class("zone_skipped", 1)
					}
					if w.RFExceeds {
						vx.Class("rf_exceeds_instances", 1)
					}
				}
				if exp.Err {
					vx.Class("expected_error", 1)
				}
			}
			if exp.Err {
				if err == nil {
					return fmt.Errorf("key=%d op=%s rf=%d za=%v: expected an error (walked=%v healthy=%v) but got %v maxErrors=%d", key, o.Name, c.RF, c.ZA, w.IDs, exp.IDs, ids(rs), rs.MaxErrors)
				}
				continue
			}
			if err != nil {
				return fmt.Errorf("key=%d op=%s rf=%d za=%v: unexpected error %v (walked=%v healthy=%v)", key, o.Name, c.RF, c.ZA, err, w.IDs, exp.IDs)
			}
			got := ids(rs)
			if fmt.Sprint(got) != fmt.Sprint(exp.IDs) || rs.MaxErrors != exp.MaxErrors {
				return fmt.Errorf("key=%d op=%s rf=%d za=%v: got %v maxErrors=%d, want %v maxErrors=%d (walked=%v)", key, o.Name, c.RF, c.ZA, got, rs.MaxErrors, exp.IDs, exp.MaxErrors, w.IDs)
			}
			for i := 1; i < len(got); i++ {
				if got[i] == got[i-1] {
					return fmt.Errorf("key=%d op=%s: duplicate instance in %v", key, o.Name, got)
				}
			}
		}
	}
	return nil
}

// runCase builds the ring client `builds` times (index construction iterates Go maps, so derived
// state may differ between builds) inside a frozen bubble and checks all lookups.
func runCase(t *testing.T, c lookupCase, keys []uint32, builds int, record bool) (err error) {
	vx.Bubble(t, func(b *vx.B) {
		time.Sleep(time.Duration(c.FracMs) * time.Millisecond) // the bubble's clock starts on a whole second
		now := time.Now()
		for i := 0; i < builds && err == nil; i++ {
			r := fakekv.NewRing(cfgOf(c), gen.Desc(c.Ins, now))
			err = checkLookups(r.Ring, c, keys, record && i == 0)
			r.Stop()
		}
	})
	return err
}

func genCase(rt *rapid.T) lookupCase {
	c := lookupCase{ZA: rapid.Bool().Draw(rt, "zoneAware"), RF: rapid.IntRange(1, 5).Draw(rt, "rf")}
	var zones []string
	maxN := 8
	if c.ZA {
		zones = []string{"a", "b", "c", "d", "e"}[:rapid.IntRange(1, 5).Draw(rt, "zones")]
		if rapid.IntRange(0, 5).Draw(rt, "manyZones") == 0 {
			// more zones than most deployments have (per-zone bookkeeping sized for "a few" zones)
			zones = []string{"a", "b", "c", "d", "e", "f", "g", "h", "i"}[:rapid.IntRange(6, 9).Draw(rt, "zonesMany")]
			c.RF = rapid.IntRange(1, len(zones)).Draw(rt, "rfMany")
			maxN = 14
			vx.Class("rings_with_six_or_more_zones", 1)
		}
	}
	c.Ins = gen.Instances(rt, gen.Opts{MinN: 0, MaxN: maxN, Zones: zones, MinTok: 0, MaxTok: 4, HealthyBias: rapid.Bool().Draw(rt, "healthyBias"), ReadOnly: rapid.Bool().Draw(rt, "someReadOnly")})
	if c.ZA && rapid.IntRange(0, 3).Draw(rt, "someUnzoned") == 0 {
		// zone-awareness on with members that carry no zone (a ring in migration): they are in no zone
		for i := range c.Ins {
			if rapid.IntRange(0, 2).Draw(rt, "unzoned") == 0 {
				c.Ins[i].Zone = ""
			}
		}
		vx.Class("zone_aware_with_unzoned_members", 1)
	}
	if rapid.Bool().Draw(rt, "offSecond") {
		c.FracMs = rapid.SampledFrom([]int{1, 250, 500, 999}).Draw(rt, "fracMs")
		c.TimeoutExtraMs = rapid.SampledFrom([]int{0, 0, 1, 500, 999}).Draw(rt, "timeoutExtraMs")
		vx.Class("lookups_off_the_whole_second", 1)
	}
	return c
}

func TestWalkRapid(t *testing.T) {
	rapid.Check(t, func(rt *rapid.T) {
		c := genCase(rt)
		if rapid.IntRange(0, 7).Draw(rt, "excludeZone") == 0 {
			// the client is configured to leave a zone out (zone names only: an empty name is no zone)
			var zs []string
			for _, in := range c.Ins {
				if in.Zone != "" {
					zs = append(zs, in.Zone)
				}
			}
			if len(zs) > 0 {
				c.Excluded = []string{zs[rapid.IntRange(0, len(zs)-1).Draw(rt, "excluded")]}
				vx.Class("clients_configured_to_leave_a_zone_out", 1)
			}
		}
		keys := gen.BoundaryKeys(c.Ins, rapid.Uint32().Draw(rt, "k1"), rapid.Uint32().Draw(rt, "k2"), rapid.Uint32().Draw(rt, "k3"), rapid.Uint32().Draw(rt, "k4"))
		vx.Class("rings", 1)
		if vx.WantSample("ring_lookup_case") && len(c.Ins) >= 2 && len(c.Ins) <= 4 {
			vx.Sample("ring_lookup_case", map[string]any{"instances": fmt.Sprint(c.Ins), "rf": c.RF, "zone_aware": c.ZA, "keys": len(keys)})
		}
		if err := runCase(t, c, keys, vx.Pick(3, 8), true); err != nil {
			rt.Fatalf("%v\ninstances=%v", err, c.Ins)
		}
	})
}

// TestWalkSweep: every assignment of 4 boundary tokens to {unclaimed, i0, i1, i2} x states pattern x
// boundary keys x 4 ops x RF 1..3 x zones on/off.
func TestWalkSweep(t *testing.T) {
	var rc lookupCase
	if vx.ReplayCase("TestWalkSweep", &rc) {
		if err := runCase(t, rc, gen.BoundaryKeys(rc.Ins, 7, 1<<31), 500, false); err != nil {
			t.Fatalf("replay: %v", err)
		}
		return
	}
	tokenSets := [][]uint32{{0, 1, gen.MaxU - 1, gen.MaxU}, {0, 2, 1 << 31, gen.MaxU}}
	if vx.Thorough() {
		tokenSets = append(tokenSets, []uint32{1, 2, 3, gen.MaxU}, []uint32{0, 5, 8, gen.MaxU - 2})
	}
	statePatterns := [][3]ring.InstanceState{
		{ring.ACTIVE, ring.ACTIVE, ring.ACTIVE},
		{ring.LEAVING, ring.ACTIVE, ring.JOINING},
		{ring.ACTIVE, ring.PENDING, ring.ACTIVE},
	}
	agePatterns := [][3]int64{{0, 0, 0}, {60, 61, 0}}
	zonePatterns := [][3]string{{"", "", ""}, {"a", "b", "c"}, {"a", "a", "b"}}
	idx := 0
	for _, toks := range tokenSets {
		for code := 1; code < 256; code++ {
			for si, sp := range statePatterns {
				for ai, ap := range agePatterns {
					for zi, zp := range zonePatterns {
						idx++
						if !vx.Mine(idx) {
							continue
						}
						ins := []gen.Inst{{ID: "i0"}, {ID: "i1"}, {ID: "i2"}}
						for k := range ins {
							ins[k].State, ins[k].AgeSec, ins[k].Zone = sp[k], ap[k], zp[k]
						}
						cc := code
						for _, tk := range toks {
							d := cc % 4
							cc /= 4
							if d > 0 {
								ins[d-1].Tokens = append(ins[d-1].Tokens, tk)
							}
						}
						// token-less instances stay in the ring for odd codes, are dropped for even ones
						if code%2 == 0 {
							var kept []gen.Inst
							for _, in := range ins {
								if len(in.Tokens) > 0 {
									kept = append(kept, in)
								}
							}
							ins = kept
						}
						keys := gen.BoundaryKeys(ins, 7, 1<<31)
						for rf := 1; rf <= 3; rf++ {
							c := lookupCase{Ins: ins, RF: rf, ZA: zi > 0}
							vx.Class("sweep_rings", 1)
							if code == 27 && si == 1 && ai == 1 {
								vx.Sample("sweep_case", map[string]any{"instances": fmt.Sprint(ins), "rf": rf, "zone_aware": c.ZA})
							}
							if err := runCase(t, c, keys, 2, true); err != nil {
								vx.Failf(t, "TestWalkSweep", c, "%v\ninstances=%v", err, ins)
							}
						}
					}
				}
			}
		}
	}
	vx.Exhaustive("every assignment of 4 boundary tokens to {unclaimed,i0,i1,i2} x 3 state patterns x 2 age patterns x 3 zone patterns x RF 1..3 x boundary keys x 4 ops")
}

// TestAddRemoveMetamorphic: registering or removing one instance changes the replica set only of
// keys for which that instance is, or was, a replica (walked sets per the implementation under the
// Reporting operation, which neither extends nor filters by state).
func TestAddRemoveMetamorphic(t *testing.T) {
	rapid.Check(t, func(rt *rapid.T) {
		c := genCase(rt)
		if len(c.Ins) == 0 {
			c.Ins = []gen.Inst{{ID: "i0", Zone: map[bool]string{true: "a", false: ""}[c.ZA], Tokens: []uint32{5}, State: ring.ACTIVE}}
		}
		xi := rapid.IntRange(0, len(c.Ins)-1).Draw(rt, "x")
		x := c.Ins[xi]
		var without []gen.Inst
		for i, in := range c.Ins {
			if i != xi {
				without = append(without, in)
			}
		}
		keys := gen.BoundaryKeys(c.Ins, rapid.Uint32().Draw(rt, "k1"), rapid.Uint32().Draw(rt, "k2"))
		vx.Class("metamorphic_ring_pairs", 1)
		var fail error
		vx.Bubble(t, func(b *vx.B) {
			now := time.Now()
			big := fakekv.NewRing(cfg(c.RF, c.ZA), gen.Desc(c.Ins, now))
			defer big.Stop()
			small := fakekv.NewRing(cfg(c.RF, c.ZA), gen.Desc(without, now))
			defer small.Stop()
			for _, key := range keys {
				for _, o := range ops {
					wBig, _ := model.Lookup(c.Ins, key, o.Op, c.RF, c.ZA, timeoutSec)
					wSmall, _ := model.Lookup(without, key, o.Op, c.RF, c.ZA, timeoutSec)
					inWalk := false
					for _, id := range append(append([]string{}, wBig.IDs...), wSmall.IDs...) {
						if id == x.ID {
							inWalk = true
						}
					}
					rb, eb := big.Get(key, o.Op, nil, nil, nil)
					rs, es := small.Get(key, o.Op, nil, nil, nil)
					// also per the implementation: X appears in neither result
					for _, id := range append(ids(rb), ids(rs)...) {
						if id == x.ID {
							inWalk = true
						}
					}
					if inWalk {
						continue
					}
					// In a zone-aware ring the walked set of a key can also change through X's zone
					// slot or X's share of the instance count, but only if X was walked; here it was not.
					vx.Eval(1)
					vx.Class("keys_not_touching_x", 1)
					if len(wBig.IDs) >= 2 {
						vx.NonTrivial(vx.FP("meta", fmt.Sprint(c.Ins), xi, c.RF, c.ZA, key, o.Name))
					}
					if (eb == nil) != (es == nil) || fmt.Sprint(ids(rb)) != fmt.Sprint(ids(rs)) || rb.MaxErrors != rs.MaxErrors {
						fail = fmt.Errorf("key=%d op=%s rf=%d za=%v: removing %s (not a replica of the key) changed the result: with=%v/%d/%v without=%v/%d/%v", key, o.Name, c.RF, c.ZA, x.ID, ids(rb), rb.MaxErrors, eb, ids(rs), rs.MaxErrors, es)
						return
					}
				}
			}
		})
		if fail != nil {
			rt.Fatalf("%v\ninstances=%v", fail, c.Ins)
		}
	})
}

// TestRegressMergeTokens: finding F3 (fixed): token 2^32-1 must survive whatever the order of the lists.
func TestRegressMergeTokens(t *testing.T) {
	for _, in := range [][][]uint32{{{gen.MaxU}, {}}, {{}, {gen.MaxU}}, {{1, gen.MaxU}, {}, {2}}, {{}, {}, {gen.MaxU}}, {{gen.MaxU}, {0}}} {
		want := 0
		for _, l := range in {
			want += len(l)
		}
		got := ring.MergeTokens(in)
		vx.Eval(1)
		if len(got) != want || !sort.SliceIsSorted(got, func(a, b int) bool { return got[a] < got[b] }) {
			t.Fatalf("MergeTokens(%v) = %v: lost or unsorted tokens", in, got)
		}
	}
	// and at ring level: a token-less instance next to the owner of 2^32-1
	c := lookupCase{RF: 1, Ins: []gen.Inst{{ID: "a1", Tokens: []uint32{gen.MaxU}, State: ring.ACTIVE}, {ID: "a2", Tokens: []uint32{0}, State: ring.ACTIVE}, {ID: "none", State: ring.ACTIVE}}}
	if err := runCase(t, c, gen.BoundaryKeys(c.Ins), 200, false); err != nil {
		t.Fatalf("%v", err)
	}
}

// TestWalkLargeRapid: rings of realistic size (tens of instances, up to thousands of tokens) in four
// token layouts — perfectly even, even with jitter, uniform, clustered — where lookup shortcuts that
// depend on the ring size or on the token distribution would act. Keys: sampled tokens and their
// neighbours, the extremes, and uniform keys.
func TestWalkLargeRapid(t *testing.T) {
	rapid.Check(t, func(rt *rapid.T) {
		c := lookupCase{ZA: rapid.Bool().Draw(rt, "zoneAware"), RF: rapid.IntRange(1, 5).Draw(rt, "rf")}
		n := rapid.IntRange(2, 24).Draw(rt, "instances")
		perInst := rapid.SampledFrom([]int{4, 8, 16, 32, 64, 128}).Draw(rt, "tokensPerInstance")
		layout := rapid.SampledFrom([]string{"even", "jitter", "uniform", "clustered"}).Draw(rt, "layout")
		total := n * perInst
		used := map[uint32]bool{}
		toks := make([]uint32, 0, total)
		step := (uint64(1) << 32) / uint64(total)
		offset := uint32(rapid.SampledFrom([]uint64{0, 0, 1, step / 2, step - 1}).Draw(rt, "offset"))
		for i := 0; i < total; i++ {
			var tk uint32
			switch layout {
			case "even":
				tk = uint32(uint64(i)*step) + offset
			case "jitter":
				tk = uint32(uint64(i)*step) + uint32(rapid.Uint64Range(0, step-1).Draw(rt, "jitter"))
			case "uniform":
				tk = rapid.Uint32().Draw(rt, "token")
			default:
				tk = uint32(rapid.Uint64Range(0, 1<<20).Draw(rt, "clusterToken")) + uint32(i%3)<<30
			}
			if used[tk] {
				continue
			}
			used[tk] = true
			toks = append(toks, tk)
		}
		// deal the tokens to the instances: round-robin (interleaved) or by a drawn permutation
		owner := make([]int, len(toks))
		interleaved := rapid.Bool().Draw(rt, "interleaved")
		for i := range toks {
			if interleaved {
				owner[i] = i % n
			} else {
				owner[i] = vx.Mix(uint64(toks[i])*2654435761+uint64(i), n)
			}
		}
		zones := []string{"a", "b", "c", "d"}[:rapid.IntRange(1, 4).Draw(rt, "zones")]
		for i := 0; i < n; i++ {
			in := gen.Inst{ID: fmt.Sprintf("i%d", i), State: ring.ACTIVE}
			if c.ZA {
				in.Zone = zones[i%len(zones)]
			}
			if rapid.IntRange(0, 5).Draw(rt, "unhealthy") == 0 {
				in.State = rapid.SampledFrom(gen.LiveStates).Draw(rt, "state")
				in.AgeSec = rapid.SampledFrom(gen.Ages).Draw(rt, "age")
			}
			in.RO = rapid.IntRange(0, 5).Draw(rt, "readOnly") == 0
			c.Ins = append(c.Ins, in)
		}
		for i, tk := range toks {
			c.Ins[owner[i]].Tokens = append(c.Ins[owner[i]].Tokens, tk)
		}
		for i := range c.Ins {
			ts := c.Ins[i].Tokens
			sort.Slice(ts, func(a, b int) bool { return ts[a] < ts[b] })
		}
		// keys
		seen := map[uint32]bool{}
		var keys []uint32
		add := func(k uint32) {
			if !seen[k] {
				seen[k] = true
				keys = append(keys, k)
			}
		}
		stride := len(toks)/96 + 1
		first := rapid.IntRange(0, stride-1).Draw(rt, "firstSampledToken")
		for i := first; i < len(toks); i += stride {
			add(toks[i])
			add(toks[i] - 1)
			add(toks[i] + 1)
		}
		add(0)
		add(1)
		add(gen.MaxU)
		for i := 0; i < 16; i++ {
			add(rapid.Uint32().Draw(rt, "key"))
		}
		vx.Class("large_rings", 1)
		vx.Class("large_ring_layout_"+layout, 1)
		if len(toks) >= 64 {
			vx.Class("large_rings_64_tokens_or_more", 1)
		}
		if vx.WantSample("large_ring_case") {
			vx.Sample("large_ring_case", map[string]any{"instances": n, "tokens": len(toks), "layout": layout, "rf": c.RF, "zone_aware": c.ZA, "keys": len(keys)})
		}
		if err := runCase(t, c, keys, 1, true); err != nil {
			rt.Fatalf("%v\nlayout=%s instances=%d tokens=%d", err, layout, n, len(toks))
		}
	})
}
