// Package c03: ring state merge is a CRDT.
package c03

import (
	"fmt"
	"sort"
	"strings"
	"testing"
	"time"

	"pgregory.net/rapid"

	"github.com/grafana/dskit/ring"

	"verifharness/internal/model"
	"verifharness/internal/vx"
)

func TestMain(m *testing.M) {
	vx.Rule("a pair/triple/update set is non-trivial when two operands hold the same entry with different (timestamp, removed) pairs, so that a last-writer-wins decision is actually taken; distinct = distinct operand tuple")
	vx.Assume("each (entry, timestamp) pair denotes one content (content is a function of (id, ts) fixed per universe variant)")
	vx.Assume("no two instances claim the same token (per-id disjoint token pools); token collisions are C05's subject")
	vx.Assume("timestamps >= 1 (0 means 'never heartbeated' and is never written by callers)")
	vx.Assume("localCAS=false only (the local-CAS merge is documented as non-commutative; see C04)")
	vx.Main(m)
}

// alg abstracts over the two ring kinds. All functions take and return canonical, independent values.
type alg struct {
	name  string
	merge func(recv, incoming any) (result any, change any) // Merge(incoming,false) on a clone of recv
	canon func(any) string
	join  func(a, b any) any // reference model
	// changeEntries returns canon strings of the entries of a change keyed by entry id
	entries func(any) map[string]string
	isNil   func(any) bool
}

var instAlg = alg{
	name: "instance-ring",
	merge: func(recv, incoming any) (any, any) {
		r := model.CloneDesc(recv.(*ring.Desc))
		ch, err := r.Merge(model.CloneDesc(incoming.(*ring.Desc)), false)
		if err != nil {
			panic(err)
		}
		if ch == nil {
			return r, (*ring.Desc)(nil)
		}
		return r, ch.(*ring.Desc)
	},
	canon: func(v any) string { return model.CanonDesc(v.(*ring.Desc)) },
	join:  func(a, b any) any { return model.JoinDesc(a.(*ring.Desc), b.(*ring.Desc)) },
	entries: func(v any) map[string]string {
		out := map[string]string{}
		d := v.(*ring.Desc)
		if d == nil {
			return out
		}
		for id, in := range d.Ingesters {
			out[id] = model.CanonInst(id, in)
		}
		return out
	},
	isNil: func(v any) bool { return v.(*ring.Desc) == nil },
}

var partAlg = alg{
	name: "partition-ring",
	merge: func(recv, incoming any) (any, any) {
		r := model.ClonePDesc(recv.(*ring.PartitionRingDesc))
		ch, err := r.Merge(model.ClonePDesc(incoming.(*ring.PartitionRingDesc)), false)
		if err != nil {
			panic(err)
		}
		if ch == nil {
			return r, (*ring.PartitionRingDesc)(nil)
		}
		return r, ch.(*ring.PartitionRingDesc)
	},
	canon: func(v any) string { return model.CanonPDesc(v.(*ring.PartitionRingDesc)) },
	join: func(a, b any) any {
		return model.JoinPDesc(a.(*ring.PartitionRingDesc), b.(*ring.PartitionRingDesc))
	},
	entries: func(v any) map[string]string {
		out := map[string]string{}
		d := v.(*ring.PartitionRingDesc)
		if d == nil {
			return out
		}
		for id, p := range d.Partitions {
			out[fmt.Sprintf("p%d", id)] = model.CanonPart(id, p)
		}
		for id, o := range d.Owners {
			out["o"+id] = model.CanonOwner(id, o)
		}
		return out
	},
	isNil: func(v any) bool { return v.(*ring.PartitionRingDesc) == nil },
}

// pairLaws checks, for operands a (receiver) and b (incoming; bRaw is b as presented on the wire,
// possibly unsorted / with duplicate tokens): model equality, commutativity, idempotence, delta
// sufficiency on the pre-merge state, nil-change and change-minimality.
func pairLaws(g alg, a, b, bRaw any) error {
	ab, ch := g.merge(a, bRaw)
	want := g.join(a, b)
	if g.canon(ab) != g.canon(want) {
		return fmt.Errorf("%s: merge differs from the LWW model:\n a     = %s\n b     = %s\n a+b   = %s\n model = %s", g.name, g.canon(a), g.canon(b), g.canon(ab), g.canon(want))
	}
	ba, _ := g.merge(b, a)
	if g.canon(ab) != g.canon(ba) {
		return fmt.Errorf("%s: not commutative:\n a   = %s\n b   = %s\n a+b = %s\n b+a = %s", g.name, g.canon(a), g.canon(b), g.canon(ab), g.canon(ba))
	}
	abb, ch2 := g.merge(ab, bRaw)
	if g.canon(abb) != g.canon(ab) || !g.isNil(ch2) {
		return fmt.Errorf("%s: not idempotent:\n a+b   = %s\n a+b+b = %s\n second change = %s", g.name, g.canon(ab), g.canon(abb), g.canon(ch2))
	}
	pre, post := g.entries(a), g.entries(ab)
	if g.isNil(ch) {
		if g.canon(ab) != g.canon(a) {
			return fmt.Errorf("%s: merge reported no change but the state changed:\n a   = %s\n b   = %s\n a+b = %s", g.name, g.canon(a), g.canon(b), g.canon(ab))
		}
		return nil
	}
	// the change reports updated entries only, with their post-merge content
	for id, c := range g.entries(ch) {
		if post[id] != c {
			return fmt.Errorf("%s: change entry %s = %s differs from the post-merge entry %s", g.name, id, c, post[id])
		}
		if pre[id] == c {
			return fmt.Errorf("%s: change contains entry %s that did not change (%s):\n a = %s\n b = %s\n change = %s", g.name, id, c, g.canon(a), g.canon(b), g.canon(ch))
		}
	}
	viaDelta, _ := g.merge(a, ch)
	if g.canon(viaDelta) != g.canon(ab) {
		return fmt.Errorf("%s: reported change is not sufficient:\n a       = %s\n b       = %s\n change  = %s\n a+change= %s\n a+b     = %s", g.name, g.canon(a), g.canon(b), g.canon(ch), g.canon(viaDelta), g.canon(ab))
	}
	return nil
}

// tripleLaws: associativity, and delta sufficiency on a replica that already contains the pre-merge state.
func tripleLaws(g alg, a, b, c any) error {
	ab, chAB := g.merge(a, b)
	abc, _ := g.merge(ab, c)
	bc, _ := g.merge(b, c)
	aBC, _ := g.merge(a, bc)
	if g.canon(abc) != g.canon(aBC) {
		return fmt.Errorf("%s: not associative:\n a = %s\n b = %s\n c = %s\n (a+b)+c = %s\n a+(b+c) = %s", g.name, g.canon(a), g.canon(b), g.canon(c), g.canon(abc), g.canon(aBC))
	}
	want := g.join(g.join(a, b), c)
	if g.canon(abc) != g.canon(want) {
		return fmt.Errorf("%s: (a+b)+c differs from the model: %s vs %s", g.name, g.canon(abc), g.canon(want))
	}
	if !g.isNil(chAB) {
		s, _ := g.merge(a, c) // a replica that already contains a
		sd, _ := g.merge(s, chAB)
		sb, _ := g.merge(s, b)
		if g.canon(sd) != g.canon(sb) {
			return fmt.Errorf("%s: change insufficient on a replica containing the pre-merge state:\n a = %s\n b = %s\n c = %s\n change(a<-b) = %s\n (a+c)+change = %s\n (a+c)+b = %s", g.name, g.canon(a), g.canon(b), g.canon(c), g.canon(chAB), g.canon(sd), g.canon(sb))
		}
	}
	return nil
}

// ---------------------------------------------------------------------------------------------
// instance-ring universe

var instIDs = []string{"A", "B", "C"}

// instContent: content as a function of (id, ts) for a universe variant.
// In odd variants the content does not depend on the timestamp: a newer version re-asserts the same
// content (a pure heartbeat, an owner registered again for the same partition after a removal).
func instContent(idx int, ts int64, variant int) ring.InstanceDesc {
	h := idx*7 + int(ts)*3 + variant*5
	if variant%2 == 1 {
		h = idx*7 + variant*5
	}
	states := []ring.InstanceState{ring.ACTIVE, ring.LEAVING, ring.PENDING, ring.JOINING}
	pool := []uint32{uint32(idx*100 + 1), uint32(idx*100 + 2), uint32(idx*100 + 3), ^uint32(0) - uint32(idx)}
	var toks []uint32
	mask := (h / 2) % 16
	for i, t := range pool {
		if mask&(1<<i) != 0 {
			toks = append(toks, t)
		}
	}
	sort.Slice(toks, func(a, b int) bool { return toks[a] < toks[b] })
	id := instIDs[idx%len(instIDs)]
	if idx >= len(instIDs) {
		id = fmt.Sprintf("%s%d", id, idx)
	}
	return ring.InstanceDesc{
		Addr: fmt.Sprintf("%s-%d:1", id, h%3), Zone: fmt.Sprintf("z%d", h%2), State: states[h%4], Tokens: toks,
		Timestamp: ts, RegisteredTimestamp: int64(1000 + idx + h%2), Id: id,
		ReadOnly: h%5 == 0, ReadOnlyUpdatedTimestamp: int64(h % 3),
	}
}

func instEntry(idx int, ts int64, left bool, variant int) ring.InstanceDesc {
	in := instContent(idx, ts, variant)
	if left {
		in.State = ring.LEFT
		in.Tokens = nil
	}
	return in
}

// instUniverse: per id: absent or (ts in 1..maxTs) x (left in {F,T}).
func instUniverse(nIDs, maxTs, variant int) []*ring.Desc {
	opts := 1 + 2*maxTs
	total := 1
	for i := 0; i < nIDs; i++ {
		total *= opts
	}
	out := make([]*ring.Desc, 0, total)
	for code := 0; code < total; code++ {
		d := ring.NewDesc()
		c := code
		for i := 0; i < nIDs; i++ {
			o := c % opts
			c /= opts
			if o == 0 {
				continue
			}
			o--
			in := instEntry(i, int64(o/2+1), o%2 == 1, variant)
			d.Ingesters[in.Id] = in
		}
		out = append(out, d)
	}
	return out
}

// scramble presents tokens unsorted and with duplicates (allowed for the incoming operand).
func scramble(d *ring.Desc) *ring.Desc {
	out := model.CloneDesc(d)
	for id, in := range out.Ingesters {
		if len(in.Tokens) >= 1 {
			t := append([]uint32{}, in.Tokens...)
			for i, j := 0, len(t)-1; i < j; i, j = i+1, j-1 {
				t[i], t[j] = t[j], t[i]
			}
			t = append(t, t[0], t[len(t)-1])
			in.Tokens = t
			out.Ingesters[id] = in
		}
	}
	return out
}

func instConflict(a, b *ring.Desc) bool {
	for id, x := range a.Ingesters {
		if y, ok := b.Ingesters[id]; ok && (x.Timestamp != y.Timestamp || (x.State == ring.LEFT) != (y.State == ring.LEFT)) {
			return true
		}
	}
	return false
}

type pairReplay struct {
	Kind    string `json:"kind"`
	Variant int    `json:"variant"`
	NIDs    int    `json:"n_ids"`
	MaxTs   int    `json:"max_ts"`
	I       int    `json:"i"`
	J       int    `json:"j"`
	K       int    `json:"k"`
}

func TestInstancePairsExhaustive(t *testing.T) {
	variants := vx.Pick(2, 6)
	for v := 0; v < variants; v++ {
		u := instUniverse(3, 3, v)
		for i, a := range u {
			if !vx.Mine(i) {
				continue
			}
			for j, b := range u {
				vx.Eval(1)
				if instConflict(a, b) {
					vx.NonTrivial(vx.FP("ipair", v, i, j))
				}
				raw := b
				if (i+j)%2 == 1 {
					raw = scramble(b)
				}
				if err := pairLaws(instAlg, a, b, raw); err != nil {
					vx.Failf(t, "TestInstancePairsExhaustive", pairReplay{"inst", v, 3, 3, i, j, 0}, "%v", err)
				}
			}
		}
		if v == 0 {
			vx.Sample("instance_pair", map[string]string{"a": model.CanonDesc(u[100]), "b": model.CanonDesc(u[237])})
		}
	}
	vx.Exhaustive(fmt.Sprintf("instance ring: all ordered pairs of the 343 descriptors over ids {A,B,C} x ts {1,2,3} x {live,LEFT} (%d content variants)", variants))
}

func TestInstanceTriplesExhaustive(t *testing.T) {
	nIDs, maxTs := 2, 3
	if vx.Thorough() {
		nIDs, maxTs = 3, 2
	}
	variants := vx.Pick(1, 2)
	for v := 0; v < variants; v++ {
		u := instUniverse(nIDs, maxTs, v)
		for i, a := range u {
			if !vx.Mine(i) {
				continue
			}
			for j, b := range u {
				for k, c := range u {
					vx.Eval(1)
					if instConflict(a, b) && (instConflict(a, c) || instConflict(b, c)) {
						vx.NonTrivial(vx.FP("itriple", v, i, j, k))
					}
					if err := tripleLaws(instAlg, a, b, c); err != nil {
						vx.Failf(t, "TestInstanceTriplesExhaustive", pairReplay{"inst3", v, nIDs, maxTs, i, j, k}, "%v", err)
					}
				}
			}
		}
	}
	vx.Exhaustive(fmt.Sprintf("instance ring: all ordered triples over %d ids x ts 1..%d x {live,LEFT} (%d descriptors)", nIDs, maxTs, len(instUniverse(nIDs, maxTs, 0))))
}

// ---------------------------------------------------------------------------------------------
// partition-ring universe

func partState(pid int32, ts int64, variant int) ring.PartitionState {
	if variant%2 == 1 {
		ts = 0 // the same state re-asserted at a later time
	}
	return []ring.PartitionState{ring.PartitionPending, ring.PartitionActive, ring.PartitionInactive}[(int64(pid)+ts+int64(variant))%3]
}
func partLock(pid int32, lts int64, variant int) bool {
	if variant%2 == 1 {
		lts = 0
	}
	return (int64(pid)+lts+int64(variant))%2 == 0
}
func ownerContent(oi int, ts int64, variant int) (ring.OwnerState, int32) {
	if variant%2 == 1 {
		ts = 0 // the same assignment at a later time
	}
	return ring.OwnerActive, int32((int64(oi) + ts + int64(variant)) % 2)
}
func partTokens(pid int32) []uint32 { return []uint32{uint32(pid)*10 + 1, uint32(pid)*10 + 2} }

// partUniverse: per partition: absent | (stateTs 1..2) x (deleted?) x (lockTs 0..2); per owner: absent | (ts 1..2) x (deleted?).
func partUniverse(nParts, nOwners, variant int) []*ring.PartitionRingDesc {
	const pOpts, oOpts = 13, 5
	total := 1
	for i := 0; i < nParts; i++ {
		total *= pOpts
	}
	for i := 0; i < nOwners; i++ {
		total *= oOpts
	}
	out := make([]*ring.PartitionRingDesc, 0, total)
	for code := 0; code < total; code++ {
		d := ring.NewPartitionRingDesc()
		c := code
		for p := int32(0); p < int32(nParts); p++ {
			o := c % pOpts
			c /= pOpts
			if o == 0 {
				continue
			}
			o--
			ts := int64(o%2 + 1)
			del := (o/2)%2 == 1
			lts := int64(o / 4)
			st := partState(p, ts, variant)
			if del {
				st = ring.PartitionDeleted
			}
			d.Partitions[p] = ring.PartitionDesc{Id: p, Tokens: partTokens(p), State: st, StateTimestamp: ts,
				StateChangeLocked: lts > 0 && partLock(p, lts, variant), StateChangeLockedTimestamp: lts}
		}
		for oi := 0; oi < nOwners; oi++ {
			o := c % oOpts
			c /= oOpts
			if o == 0 {
				continue
			}
			o--
			ts := int64(o%2 + 1)
			st, part := ownerContent(oi, ts, variant)
			if o/2 == 1 {
				st = ring.OwnerDeleted
			}
			d.Owners[fmt.Sprintf("o%d", oi)] = ring.OwnerDesc{OwnedPartition: part, State: st, UpdatedTimestamp: ts}
		}
		out = append(out, d)
	}
	return out
}

func partConflict(a, b *ring.PartitionRingDesc) bool {
	for id, x := range a.Partitions {
		if y, ok := b.Partitions[id]; ok && (x.StateTimestamp != y.StateTimestamp || x.State != y.State || x.StateChangeLockedTimestamp != y.StateChangeLockedTimestamp) {
			return true
		}
	}
	for id, x := range a.Owners {
		if y, ok := b.Owners[id]; ok && (x.UpdatedTimestamp != y.UpdatedTimestamp || x.State != y.State) {
			return true
		}
	}
	return false
}

func TestPartitionPairsExhaustive(t *testing.T) {
	type shape struct{ parts, owners int }
	shapes := []shape{{2, 1}, {1, 2}}
	variants := vx.Pick(2, 4)
	for _, sh := range shapes {
		for v := 0; v < variants; v++ {
			u := partUniverse(sh.parts, sh.owners, v)
			for i, a := range u {
				if !vx.Mine(i) {
					continue
				}
				for j, b := range u {
					vx.Eval(1)
					if partConflict(a, b) {
						vx.NonTrivial(vx.FP("ppair", sh, v, i, j))
					}
					if err := pairLaws(partAlg, a, b, b); err != nil {
						vx.Failf(t, "TestPartitionPairsExhaustive", pairReplay{"part", v, sh.parts, sh.owners, i, j, 0}, "%v", err)
					}
				}
			}
			if v == 0 {
				vx.Sample("partition_pair", map[string]string{"a": model.CanonPDesc(u[len(u)/3]), "b": model.CanonPDesc(u[len(u)/2+7])})
			}
		}
		vx.Exhaustive(fmt.Sprintf("partition ring: all ordered pairs over %d partitions x {absent | stateTs 1..2 x deleted? x lockTs 0..2} and %d owners x {absent | ts 1..2 x deleted?} (%d descriptors, %d content variants)", sh.parts, sh.owners, len(partUniverse(sh.parts, sh.owners, 0)), variants))
	}
}

func TestPartitionTriplesExhaustive(t *testing.T) {
	parts, owners := 1, 1
	stride := 1
	if vx.Thorough() {
		parts, owners, stride = 2, 0, 1
	}
	for variant := 0; variant < 2; variant++ {
		u := partUniverse(parts, owners, variant)
		for i, a := range u {
			if !vx.Mine(i) {
				continue
			}
			for j, b := range u {
				for k := 0; k < len(u); k += stride {
					c := u[k]
					vx.Eval(1)
					if partConflict(a, b) && (partConflict(a, c) || partConflict(b, c)) {
						vx.NonTrivial(vx.FP("ptriple", variant, i, j, k))
					}
					if err := tripleLaws(partAlg, a, b, c); err != nil {
						vx.Failf(t, "TestPartitionTriplesExhaustive", pairReplay{"part3", variant, parts, owners, i, j, k}, "%v", err)
					}
				}
			}
		}
	}
	vx.Exhaustive(fmt.Sprintf("partition ring: all ordered triples over %d partitions and %d owners (%d descriptors, 2 content variants)", parts, owners, len(partUniverse(parts, owners, 0))))
}

// ---------------------------------------------------------------------------------------------
// random large: update sets delivered in permuted, regrouped and duplicated form to 3 replicas

func TestInstanceDeliveryRapid(t *testing.T) {
	rapid.Check(t, func(rt *rapid.T) {
		nIDs := rapid.IntRange(5, 12).Draw(rt, "ids")
		variant := rapid.IntRange(0, 50).Draw(rt, "variant")
		nUpd := rapid.IntRange(3, 8).Draw(rt, "updates")
		epoch := rapid.SampledFrom([]int64{0, 0, time.Now().Unix() - 5, time.Now().Unix() + 3600, time.Now().Unix() + 365*86400}).Draw(rt, "timestampEpoch")
		var updates []*ring.Desc
		for u := 0; u < nUpd; u++ {
			d := ring.NewDesc()
			for i := 0; i < nIDs; i++ {
				if rapid.IntRange(0, 2).Draw(rt, "present") == 0 {
					continue
				}
				in := instEntry(i, int64(rapid.IntRange(1, 10).Draw(rt, "ts")), rapid.IntRange(0, 3).Draw(rt, "left") == 0, variant)
				in.Timestamp += epoch
				d.Ingesters[in.Id] = in
			}
			if rapid.Bool().Draw(rt, "scramble") {
				d = scramble(d)
			}
			updates = append(updates, d)
		}
		// entries that have never heartbeated (timestamp 0, not removed), under names of their own: no merge
		// ever takes such an entry from a peer, whatever the receiver holds - an empty receiver included -
		// so the replicas end up as if the updates did not carry them
		stripped := updates
		if epoch == 0 && rapid.IntRange(0, 3).Draw(rt, "neverHeartbeated") == 0 {
			stripped = nil
			for u, d := range updates {
				stripped = append(stripped, model.CloneDesc(d))
				if u == 0 || rapid.Bool().Draw(rt, "carriesOne") {
					id := fmt.Sprintf("nohb-%d", rapid.IntRange(0, 2).Draw(rt, "nohb"))
					d.Ingesters[id] = ring.InstanceDesc{Id: id, Addr: id + ":1", State: ring.InstanceState(rapid.IntRange(0, 1).Draw(rt, "nohbState")) * 2, Tokens: []uint32{uint32(4000000000 + u)}}
				}
			}
			vx.Class("update_sets_carrying_entries_that_never_heartbeated", 1)
		}
		deliveries := genDeliveries(rt, nUpd)
		vx.Eval(1)
		conflict := false
		for i := range updates {
			for j := i + 1; j < len(updates); j++ {
				if instConflict(updates[i], updates[j]) {
					conflict = true
				}
			}
		}
		if conflict {
			vx.NonTrivial(vx.FP("idel", fmt.Sprint(deliveries), variant, func() string {
				var s []string
				for _, u := range updates {
					s = append(s, model.CanonDesc(u))
				}
				return strings.Join(s, ";")
			}()))
		}
		var want any = ring.NewDesc()
		for _, u := range stripped {
			want = instAlg.join(want, any(u))
		}
		var first string
		for ri, plan := range deliveries {
			var state any = ring.NewDesc()
			for _, group := range plan {
				// a group is pre-merged on an intermediate node, then delivered as one message
				var msg any = ring.NewDesc()
				for _, ui := range group {
					msg, _ = instAlg.merge(msg, any(updates[ui]))
				}
				state, _ = instAlg.merge(state, msg)
			}
			got := instAlg.canon(state)
			if got != instAlg.canon(want) {
				rt.Fatalf("replica %d (delivery %v) differs from the LWW join of the update set:\n got   = %s\n model = %s", ri, plan, got, instAlg.canon(want))
			}
			if ri == 0 {
				first = got
			} else if got != first {
				rt.Fatalf("replicas disagree after receiving the same update set:\n r0 = %s\n r%d = %s", first, ri, got)
			}
		}
		if vx.WantSample("delivery_plan") {
			vx.Sample("delivery_plan", map[string]any{"updates": nUpd, "ids": nIDs, "replica_deliveries": fmt.Sprint(deliveries)})
		}
	})
}

// genDeliveries: for each of 3 replicas a list of groups (each group = indexes of updates pre-merged
// into one message); every update appears at least once, in random order, with random repetition.
func genDeliveries(rt *rapid.T, nUpd int) [][][]int {
	var out [][][]int
	for r := 0; r < 3; r++ {
		seq := rapid.Permutation(seqInts(nUpd)).Draw(rt, "perm")
		extra := rapid.SliceOfN(rapid.IntRange(0, nUpd-1), 0, nUpd).Draw(rt, "dups")
		for _, e := range extra {
			pos := rapid.IntRange(0, len(seq)).Draw(rt, "dupPos")
			seq = append(seq[:pos], append([]int{e}, seq[pos:]...)...)
		}
		var plan [][]int
		for i := 0; i < len(seq); {
			n := rapid.IntRange(1, 3).Draw(rt, "groupLen")
			if i+n > len(seq) {
				n = len(seq) - i
			}
			plan = append(plan, append([]int{}, seq[i:i+n]...))
			i += n
		}
		out = append(out, plan)
	}
	return out
}

func seqInts(n int) []int {
	s := make([]int, n)
	for i := range s {
		s[i] = i
	}
	return s
}

func TestPartitionDeliveryRapid(t *testing.T) {
	rapid.Check(t, func(rt *rapid.T) {
		nParts := rapid.IntRange(2, 8).Draw(rt, "partitions")
		nOwners := rapid.IntRange(1, 6).Draw(rt, "owners")
		variant := rapid.IntRange(0, 50).Draw(rt, "variant")
		nUpd := rapid.IntRange(3, 8).Draw(rt, "updates")
		// the timestamps are small integers, today's, or written by a clock an hour or a year ahead of
		// the merging replica's: a merge depends on its operands only
		epoch := rapid.SampledFrom([]int64{0, 0, time.Now().Unix() - 5, time.Now().Unix() + 3600, time.Now().Unix() + 365*86400}).Draw(rt, "timestampEpoch")
		// a fifth of the update sets carry partitions and owners whose state is the zero value of its type
		// ("unknown": written by a peer that knows a state this code does not, or none): a state is content
		// like any other. Should a merge refuse such a descriptor, it must refuse it as a whole
		unknownStates := rapid.IntRange(0, 4).Draw(rt, "unknownStates") == 0
		var updates []*ring.PartitionRingDesc
		for u := 0; u < nUpd; u++ {
			d := ring.NewPartitionRingDesc()
			for p := int32(0); p < int32(nParts); p++ {
				if rapid.IntRange(0, 2).Draw(rt, "present") == 0 {
					continue
				}
				ts := int64(rapid.IntRange(1, 10).Draw(rt, "ts"))
				lts := int64(rapid.IntRange(0, 10).Draw(rt, "lts"))
				st := partState(p, ts, variant)
				if unknownStates && (int64(p)+ts+int64(variant))%5 == 0 {
					st = ring.PartitionUnknown
				}
				if rapid.IntRange(0, 3).Draw(rt, "del") == 0 {
					st = ring.PartitionDeleted
				}
				ltsAbs := lts
				if lts > 0 {
					ltsAbs += epoch
				}
				d.Partitions[p] = ring.PartitionDesc{Id: p, Tokens: partTokens(p), State: st, StateTimestamp: ts + epoch, StateChangeLocked: lts > 0 && partLock(p, lts, variant), StateChangeLockedTimestamp: ltsAbs}
			}
			for oi := 0; oi < nOwners; oi++ {
				if rapid.IntRange(0, 2).Draw(rt, "opresent") == 0 {
					continue
				}
				ts := int64(rapid.IntRange(1, 10).Draw(rt, "ots"))
				st, part := ownerContent(oi, ts, variant)
				if unknownStates && (int64(oi)+ts+int64(variant))%5 == 2 {
					st = ring.OwnerUnknown
				}
				if rapid.IntRange(0, 3).Draw(rt, "odel") == 0 {
					st = ring.OwnerDeleted
				}
				d.Owners[fmt.Sprintf("o%d", oi)] = ring.OwnerDesc{OwnedPartition: part, State: st, UpdatedTimestamp: ts + epoch}
			}
			updates = append(updates, d)
		}
		deliveries := genDeliveries(rt, nUpd)
		vx.Eval(1)
		conflict := false
		var us []string
		for i := range updates {
			us = append(us, model.CanonPDesc(updates[i]))
			for j := i + 1; j < len(updates); j++ {
				if partConflict(updates[i], updates[j]) {
					conflict = true
				}
			}
		}
		if conflict {
			vx.NonTrivial(vx.FP("pdel", fmt.Sprint(deliveries), strings.Join(us, ";")))
		}
		var want any = ring.NewPartitionRingDesc()
		for _, u := range updates {
			want = partAlg.join(want, any(u))
		}
		if unknownStates {
			vx.Class("update_sets_with_partitions_or_owners_in_the_unknown_state", 1)
			// every single merge either succeeds or leaves its receiver as it was
			for ui, u := range updates {
				recv := ring.NewPartitionRingDesc()
				if ui > 0 {
					recv = model.ClonePDesc(updates[ui-1])
				}
				before := model.CanonPDesc(recv)
				if ch, err := recv.Merge(model.ClonePDesc(u), false); err != nil {
					if after := model.CanonPDesc(recv); after != before {
						rt.Fatalf("Merge returned the error %q (change %v) and yet changed its receiver:\n before = %s\n after  = %s\n incoming = %s", err, ch, before, after, model.CanonPDesc(u))
					}
					return // this code refuses such descriptors as a whole: nothing more to compare
				}
			}
		}
		var first string
		for ri, plan := range deliveries {
			var state any = ring.NewPartitionRingDesc()
			for _, group := range plan {
				var msg any = ring.NewPartitionRingDesc()
				for _, ui := range group {
					msg, _ = partAlg.merge(msg, any(updates[ui]))
				}
				state, _ = partAlg.merge(state, msg)
			}
			got := partAlg.canon(state)
			if got != partAlg.canon(want) {
				rt.Fatalf("replica %d (delivery %v) differs from the LWW join of the update set:\n got   = %s\n model = %s", ri, plan, got, partAlg.canon(want))
			}
			if ri == 0 {
				first = got
			} else if got != first {
				rt.Fatalf("replicas disagree after receiving the same update set:\n r0 = %s\n r%d = %s", first, ri, got)
			}
		}
	})
}

// TestPairLawsRapid: the pair and triple laws on random larger descriptors of both kinds.
func TestLawsRapid(t *testing.T) {
	rapid.Check(t, func(rt *rapid.T) {
		variant := rapid.IntRange(0, 50).Draw(rt, "variant")
		nIDs := rapid.IntRange(1, 10).Draw(rt, "ids")
		mk := func(label string) *ring.Desc {
			d := ring.NewDesc()
			for i := 0; i < nIDs; i++ {
				if rapid.IntRange(0, 3).Draw(rt, label+"present") == 0 {
					continue
				}
				in := instEntry(i, int64(rapid.IntRange(1, 4).Draw(rt, label+"ts")), rapid.IntRange(0, 3).Draw(rt, label+"left") == 0, variant)
				d.Ingesters[in.Id] = in
			}
			return d
		}
		a, b, c := mk("a"), mk("b"), mk("c")
		vx.Eval(1)
		if instConflict(a, b) {
			vx.NonTrivial(vx.FP("ilaws", variant, model.CanonDesc(a), model.CanonDesc(b), model.CanonDesc(c)))
		}
		if err := pairLaws(instAlg, a, b, scramble(b)); err != nil {
			rt.Fatalf("%v", err)
		}
		if err := tripleLaws(instAlg, a, b, c); err != nil {
			rt.Fatalf("%v", err)
		}
	})
}
