// Package c13: a ring client's answers depend only on the latest ring content, not on history.
package c13

import (
	"context"
	"errors"
	"fmt"
	"sort"
	"strings"
	"testing"
	"time"

	"github.com/go-kit/log"
	"pgregory.net/rapid"

	"github.com/grafana/dskit/ring"
	"github.com/grafana/dskit/services"

	"verifharness/internal/fakekv"
	"verifharness/internal/vx"
)

func TestMain(m *testing.M) {
	vx.Rule("a query is non-trivial when the long-lived client answers a shuffle-shard query (with or without look-back) whose (identifier, size, look-back) was already asked before the most recent update, i.e. a cache entry created before an update could be consulted; distinct = distinct (history, query) fingerprint")
	vx.Assume("the oracle is differential: a client freshly built by the same code from the latest descriptor with the subring cache disabled")
	vx.Assume("descriptor versions share token storage for unchanged instances, as the gossip store produces them; a changed token list is a new slice")
	vx.Main(m)
}

func canonInst(i ring.InstanceDesc) string {
	var vs []string
	for k, v := range i.Versions {
		vs = append(vs, fmt.Sprintf("%d=%d", k, v))
	}
	sort.Strings(vs)
	return fmt.Sprintf("%s|%s|%s|%d|%v|%v|%d|%v|%d|%v", i.Id, i.Addr, i.Zone, i.Timestamp, i.State, i.Tokens, i.RegisteredTimestamp, i.ReadOnly, i.ReadOnlyUpdatedTimestamp, vs)
}

func canonSet(rs ring.ReplicationSet, err error) string {
	if err != nil {
		return "ERR(" + err.Error() + ")"
	}
	var xs []string
	for _, i := range rs.Instances {
		xs = append(xs, canonInst(i))
	}
	sort.Strings(xs)
	return fmt.Sprintf("%v maxErr=%d maxZones=%d za=%v", xs, rs.MaxErrors, rs.MaxUnavailableZones, rs.ZoneAwarenessEnabled)
}

type query struct {
	Kind   string
	Key    uint32
	ID     string
	Size   int
	LbSec  int
	NowOff int
	Nanos  int64 // sub-second part of the look-back query instant
	Inst   string
}

var allOps = []ring.Operation{ring.Write, ring.Read, ring.Reporting, ring.WriteNoExtend}

func answer(r ring.ReadRing, q query, base time.Time) string {
	switch q.Kind {
	case "get":
		var sb strings.Builder
		for _, op := range allOps {
			sb.WriteString(canonSet(r.Get(q.Key, op, nil, nil, nil)))
		}
		return sb.String()
	case "all":
		return canonSet(r.GetAllHealthy(ring.Reporting)) + canonSet(r.GetAllHealthy(ring.Read)) + canonSet(r.GetReplicationSetForOperation(ring.Read)) + canonSet(r.GetReplicationSetForOperation(ring.Write))
	case "shard":
		s := r.ShuffleShard(q.ID, q.Size)
		return canonSet(s.GetAllHealthy(ring.Reporting)) + canonSet(s.Get(q.Key, ring.Write, nil, nil, nil)) + canonSet(s.GetReplicationSetForOperation(ring.Read)) + fmt.Sprint(s.InstancesCount(), s.InstancesWithTokensCount(), s.ZonesCount(), s.Zones(), s.HasInstance(q.Inst))
	case "lookback":
		s := r.ShuffleShardWithLookback(q.ID, q.Size, time.Duration(q.LbSec)*time.Second, base.Add(time.Duration(q.NowOff)*time.Second+time.Duration(q.Nanos)))
		return canonSet(s.GetAllHealthy(ring.Reporting)) + canonSet(s.Get(q.Key, ring.Read, nil, nil, nil)) + fmt.Sprint(s.InstancesCount(), s.HasInstance(q.Inst))
	case "counts":
		var sb strings.Builder
		fmt.Fprint(&sb, r.InstancesCount(), r.InstancesWithTokensCount(), r.WritableInstancesWithTokensCount(), r.ZonesCount(), r.Zones())
		for _, z := range []string{"a", "b", "c", ""} {
			fmt.Fprint(&sb, r.InstancesInZoneCount(z), r.InstancesWithTokensInZoneCount(z), r.WritableInstancesWithTokensInZoneCount(z))
		}
		st, err := r.GetInstanceState(q.Inst)
		fmt.Fprint(&sb, st, err, r.HasInstance(q.Inst))
		if rr, ok := r.(*ring.Ring); ok {
			in, err := rr.GetInstance(q.Inst)
			fmt.Fprint(&sb, canonInst(in), err)
		}
		return sb.String()
	case "ranges":
		tr, err := r.GetTokenRangesForInstance(q.Inst)
		return fmt.Sprint(tr, err != nil)
	case "subop":
		s := r.GetSubringForOperationStates(ring.Read)
		return canonSet(s.GetAllHealthy(ring.Reporting)) + fmt.Sprint(s.InstancesCount())
	}
	return ""
}

var updateKinds = []string{"heartbeat", "heartbeat", "state", "tokens", "zone", "addr", "reg", "ro", "rots", "versions", "add", "remove", "swap", "swap", "joiner", "joiner", "handover", "handover", "same", "query", "query", "query"}

func TestInstanceRingHistoryRapid(t *testing.T) {
	rapid.Check(t, func(rt *rapid.T) {
		za := rapid.Bool().Draw(rt, "zoneAware")
		zones := []string{"a", "b", "c"}[:rapid.IntRange(1, 3).Draw(rt, "zones")]
		rf := rapid.IntRange(1, 3).Draw(rt, "rf")
		var failure string
		vx.Bubble(t, func(b *vx.B) {
			base := time.Now()
			cur := map[string]ring.InstanceDesc{}
			used := map[uint32]bool{}
			freshTok := func() uint32 {
				for {
					tk := rapid.Uint32().Draw(rt, "tk")
					switch rapid.IntRange(0, 2).Draw(rt, "tkKind") {
					case 0:
						tk %= 32
					case 1:
						tk = ^uint32(0) - tk%4
					}
					if used[tk] {
						continue
					}
					used[tk] = true
					return tk
				}
			}
			// some writers (older lifecyclers) leave the Id field of their entries empty: clients fill it in from the key
			legacyWriters := rapid.IntRange(0, 2).Draw(rt, "legacyWriters") == 0
			idField := func(i int, id string) string {
				if legacyWriters && i%2 == 1 {
					return ""
				}
				return id
			}
			addInst := func(i int, at time.Time) {
				id := fmt.Sprintf("i%d", i)
				toks := []uint32{freshTok(), freshTok()}
				sort.Slice(toks, func(a, b int) bool { return toks[a] < toks[b] })
				cur[id] = ring.InstanceDesc{Id: idField(i, id), Addr: id + ":1", Zone: zones[i%len(zones)], Tokens: toks, State: ring.ACTIVE, Timestamp: at.Unix(), RegisteredTimestamp: at.Unix() - int64(rapid.IntRange(0, 100).Draw(rt, "regAge"))}
				if rapid.IntRange(0, 4).Draw(rt, "regUnknown") == 0 {
					// written by a lifecycler that does not record registration times: 0 = unknown (a later
					// "reg" update sets it)
					in := cur[id]
					in.RegisteredTimestamp = 0
					cur[id] = in
				}
			}
			n0 := rapid.IntRange(1, 6).Draw(rt, "n0")
			for i := 0; i < n0; i++ {
				addInst(i, base)
			}
			next := n0
			mk := func() *ring.Desc {
				d := ring.NewDesc()
				for k, v := range cur {
					d.Ingesters[k] = v // shares token storage across versions, like the gossip store
				}
				return d
			}
			cfg := ring.Config{HeartbeatTimeout: time.Minute, ReplicationFactor: rf, ZoneAwarenessEnabled: za}
			long := fakekv.NewRing(cfg, mk())
			b.Cleanup(long.Stop)
			ids := func() []string {
				var xs []string
				for k := range cur {
					xs = append(xs, k)
				}
				sort.Strings(xs)
				return xs
			}
			asked := map[string]int{} // shard query key -> update counter when last asked
			updates := 0
			// sub-rings a caller still holds while the parent moves on: they stay usable, and they answer
			// with their own members only
			type heldShard struct {
				what    string
				sub     ring.ReadRing
				members map[string]bool
			}
			var held []heldShard
			checkHeld := func(step int) {
				for _, h := range held {
					for _, key := range []uint32{0, 7, 19, 31, ^uint32(0) - 1} {
						rs, err := h.sub.Get(key, ring.Reporting, nil, nil, nil)
						if err != nil && errors.Is(err, ring.ErrInconsistentTokensInfo) {
							failure = fmt.Sprintf("after step %d: a sub-ring obtained earlier (%s) reports inconsistent token information for key %d: %v", step, h.what, key, err)
							return
						}
						for _, in := range rs.Instances {
							if !h.members[in.Id] {
								failure = fmt.Sprintf("after step %d: a sub-ring obtained earlier (%s, members %v) answers key %d with %q, which is not one of its members", step, h.what, h.members, key, in.Id)
								return
							}
						}
					}
					vx.Class("held_subring_lookups", 1)
				}
			}
			var hist []string
			steps := rapid.IntRange(1, vx.Pick(20, 30)).Draw(rt, "steps")
			for s := 0; s < steps; s++ {
				time.Sleep(time.Duration(rapid.SampledFrom([]int{1, 1000, 1, 2500, 7000, 61000}).Draw(rt, "dtMicro")) * time.Microsecond * time.Duration(rapid.IntRange(1, 1000).Draw(rt, "dtMul")))
				now := time.Now()
				xs := ids()
				pick := xs[rapid.IntRange(0, len(xs)-1).Draw(rt, "pick")]
				in := cur[pick]
				k := rapid.SampledFrom(updateKinds).Draw(rt, "update")
				switch k {
				case "heartbeat":
					in.Timestamp = now.Unix()
					cur[pick] = in
				case "state":
					in.State = rapid.SampledFrom([]ring.InstanceState{ring.ACTIVE, ring.LEAVING, ring.PENDING, ring.JOINING}).Draw(rt, "state")
					cur[pick] = in
				case "handover":
					// a token changes hands (conflict resolution, a takeover): the set of tokens in the ring, and in
					// each zone when the other instance is in the same zone, stays what it was
					if len(in.Tokens) < 2 {
						break
					}
					var others []string
					for _, o := range xs {
						if o != pick && cur[o].Zone == in.Zone {
							others = append(others, o)
						}
					}
					if len(others) == 0 {
						for _, o := range xs {
							if o != pick {
								others = append(others, o)
							}
						}
					}
					if len(others) == 0 {
						break
					}
					to := others[rapid.IntRange(0, len(others)-1).Draw(rt, "handoverTo")]
					ti := rapid.IntRange(0, len(in.Tokens)-1).Draw(rt, "handoverTok")
					tok := in.Tokens[ti]
					nt := append(append([]uint32(nil), in.Tokens[:ti]...), in.Tokens[ti+1:]...)
					in.Tokens = nt
					cur[pick] = in
					oi := cur[to]
					ot := append(append([]uint32(nil), oi.Tokens...), tok)
					sort.Slice(ot, func(a, b int) bool { return ot[a] < ot[b] })
					oi.Tokens = ot
					cur[to] = oi
				case "joiner":
					// an instance registers without tokens (it has not chosen them yet), in one of the zones or in
					// a zone of its own that no token owner is in; it gets its tokens with a later "tokens" update
					// or leaves again with "remove"
					id := fmt.Sprintf("i%d", next)
					zone := rapid.SampledFrom(append([]string{"z-joiners"}, zones...)).Draw(rt, "joinerZone")
					cur[id] = ring.InstanceDesc{Id: idField(next, id), Addr: id + ":1", Zone: zone, State: ring.PENDING, Timestamp: now.Unix(), RegisteredTimestamp: now.Unix()}
					next++
				case "tokens":
					nt := append([]uint32(nil), in.Tokens...)
					if len(nt) == 0 {
						nt = []uint32{freshTok()}
						in.State = ring.ACTIVE
					}
					nt[rapid.IntRange(0, len(nt)-1).Draw(rt, "tokIdx")] = freshTok()
					sort.Slice(nt, func(a, b int) bool { return nt[a] < nt[b] })
					in.Tokens = nt
					cur[pick] = in
				case "zone":
					in.Zone = rapid.SampledFrom(zones).Draw(rt, "newZone")
					cur[pick] = in
				case "addr":
					in.Addr = in.Addr + "x"
					cur[pick] = in
				case "reg":
					in.RegisteredTimestamp = now.Unix() - int64(rapid.IntRange(0, 100).Draw(rt, "regAge2"))
					cur[pick] = in
				case "ro":
					in.ReadOnly = !in.ReadOnly
					in.ReadOnlyUpdatedTimestamp = now.Unix()
					cur[pick] = in
				case "rots":
					// read-only flag re-asserted at a later time: only the update time changes
					in.ReadOnlyUpdatedTimestamp = now.Unix() - int64(rapid.IntRange(0, 40).Draw(rt, "rotsAge"))
					cur[pick] = in
				case "versions":
					in.Versions = map[uint64]uint64{1: uint64(rapid.IntRange(1, 5).Draw(rt, "version"))}
					cur[pick] = in
				case "add":
					addInst(next, now)
					next++
				case "remove":
					if len(cur) > 1 {
						delete(cur, pick)
					}
				case "swap":
					// one notification carrying two changes (watchers deliver only the latest value): an instance
					// has left and another one has joined, in another zone where there is one
					delete(cur, pick)
					if len(zones) > 1 && zones[next%len(zones)] == in.Zone {
						next++
					}
					addInst(next, now)
					next++
				}
				vx.Class("update_"+k, 1)
				if k != "query" {
					long.Push(mk())
					updates++
					hist = append(hist, fmt.Sprintf("t=%v %s(%s)", time.Since(base), k, pick))
					if checkHeld(s); failure != "" {
						failure += fmt.Sprintf("\n history: %v", hist)
						return
					}
				}
				if len(held) < 4 && rapid.IntRange(0, 2).Draw(rt, "holdShard") == 0 {
					id, size := rapid.SampledFrom([]string{"t1", "t2"}).Draw(rt, "heldTenant"), rapid.IntRange(1, 4).Draw(rt, "heldSize")
					sub := long.ShuffleShard(id, size)
					if sub != ring.ReadRing(long.Ring) {
						h := heldShard{what: fmt.Sprintf("ShuffleShard(%s,%d) after %d updates", id, size, updates), sub: sub, members: map[string]bool{}}
						if rs, err := sub.GetAllHealthy(ring.Reporting); err == nil {
							for _, in := range rs.Instances {
								h.members[in.Id] = true
							}
						}
						// members that are not healthy for the operation are members too
						for id := range cur { // by key: entries of older writers carry no Id field
							if sub.HasInstance(id) {
								h.members[id] = true
							}
						}
						held = append(held, h)
					}
				}
				fresh := fakekv.NewRing(ring.Config{HeartbeatTimeout: cfg.HeartbeatTimeout, ReplicationFactor: rf, ZoneAwarenessEnabled: za, SubringCacheDisabled: true}, mk())
				nq := rapid.IntRange(1, 6).Draw(rt, "queries")
				for j := 0; j < nq; j++ {
					xs = ids()
					q := query{
						Kind:   rapid.SampledFrom([]string{"get", "all", "shard", "shard", "shard", "lookback", "lookback", "lookback", "counts", "ranges", "subop"}).Draw(rt, "queryKind"),
						Key:    rapid.Uint32().Draw(rt, "key") % 40,
						ID:     rapid.SampledFrom([]string{"t1", "t2"}).Draw(rt, "tenant"),
						Size:   rapid.IntRange(0, 4).Draw(rt, "size"),
						LbSec:  rapid.SampledFrom([]int{5, 30}).Draw(rt, "lookback"),
						NowOff: int(time.Since(base)/time.Second) + rapid.IntRange(-10, 10).Draw(rt, "nowOff"),
						Inst:   xs[rapid.IntRange(0, len(xs)-1).Draw(rt, "queryInst")],
						Nanos:  rapid.SampledFrom([]int64{0, 0, 1, 400_000_000, 999_999_999}).Draw(rt, "queryNanos"),
					}
					if q.Kind == "lookback" && rapid.Bool().Draw(rt, "anchorWindow") {
						// place the window start on / next to a registration or read-only change time
						anchor := cur[q.Inst].RegisteredTimestamp
						if cur[q.Inst].ReadOnlyUpdatedTimestamp > 0 && rapid.Bool().Draw(rt, "anchorRO") {
							anchor = cur[q.Inst].ReadOnlyUpdatedTimestamp
						}
						q.NowOff = int(anchor + int64(rapid.IntRange(-2, 2).Draw(rt, "anchorDelta")) + int64(q.LbSec) - base.Unix())
						vx.Class("lookback_window_anchored", 1)
					}
					if rapid.IntRange(0, 9).Draw(rt, "ghost") == 0 {
						q.Inst = "ghost"
					}
					vx.Eval(1)
					if q.Kind == "shard" || q.Kind == "lookback" {
						ck := fmt.Sprint(q.Kind, q.ID, q.Size, q.LbSec)
						if q.Kind == "shard" {
							ck = fmt.Sprint(q.Kind, q.ID, q.Size)
						}
						if at, ok := asked[ck]; ok && at < updates {
							vx.NonTrivial(vx.FP(strings.Join(hist, ";"), fmt.Sprint(q)))
							vx.Class("cache_hit_across_update", 1)
						}
						asked[ck] = updates
					}
					a, f := answer(long.Ring, q, base), answer(fresh.Ring, q, base)
					if a != f {
						fresh.Stop()
						failure = fmt.Sprintf("after step %d (%s) query %+v\n long-lived: %s\n fresh     : %s\n history: %v", s, k, q, a, f, hist)
						return
					}
				}
				fresh.Stop()
			}
			if vx.WantSample("history") && len(hist) >= 3 && len(hist) <= 6 {
				vx.Sample("history", hist)
			}
		})
		if failure != "" {
			rt.Fatalf("%s", failure)
		}
	})
}

// ---------------------------------------------------------------------------------------------
// partition ring: cached shards and the watcher

func canonPRing(r *ring.PartitionRing) string {
	var xs []string
	for _, p := range r.Partitions() {
		xs = append(xs, fmt.Sprintf("%d:%v@%d:%v", p.Id, p.State, p.StateTimestamp, p.Tokens))
	}
	sort.Strings(xs)
	return fmt.Sprint(xs, r.PartitionsCount(), r.ActivePartitionsCount(), r.ActivePartitionIDs(), r.InactivePartitionIDs(), r.PendingPartitionIDs(), r.MaxPartitionID(), r.PartitionOwnerIDs(0), r.PartitionOwnerIDs(1))
}

func answerP(r *ring.PartitionRing, q query, base int64) string {
	switch q.Kind {
	case "route":
		p, err := r.ActivePartitionForKey(q.Key)
		return fmt.Sprint(p, err)
	case "shard":
		s, err := r.ShuffleShard(q.ID, q.Size)
		if err != nil {
			return "ERR " + err.Error()
		}
		p, perr := s.ActivePartitionForKey(q.Key)
		return canonPRing(s) + fmt.Sprint(p, perr)
	case "lookback":
		s, err := r.ShuffleShardWithLookback(q.ID, q.Size, time.Duration(q.LbSec)*time.Second, time.Unix(base+int64(q.NowOff), q.Nanos))
		if err != nil {
			return "ERR " + err.Error()
		}
		return canonPRing(s)
	case "size":
		return fmt.Sprint(r.ShuffleShardSize(q.Size))
	case "ranges":
		tr, err := r.GetTokenRangesForPartition(int32(q.Size))
		return fmt.Sprint(tr, err)
	default:
		return canonPRing(r)
	}
}

func genPDesc(rt *rapid.T, base int64, used map[uint32]bool) *ring.PartitionRingDesc {
	d := ring.NewPartitionRingDesc()
	n := rapid.IntRange(1, 8).Draw(rt, "partitions")
	for p := 0; p < n; p++ {
		var toks []uint32
		want := rapid.IntRange(1, 3).Draw(rt, "nt")
		for len(toks) < want {
			tk := rapid.Uint32().Draw(rt, "tk")
			if rapid.Bool().Draw(rt, "small") {
				tk %= 64
			}
			if used[tk] {
				continue
			}
			used[tk] = true
			toks = append(toks, tk)
		}
		sort.Slice(toks, func(a, b int) bool { return toks[a] < toks[b] })
		d.Partitions[int32(p)] = ring.PartitionDesc{Id: int32(p), Tokens: toks,
			State:          rapid.SampledFrom([]ring.PartitionState{ring.PartitionActive, ring.PartitionActive, ring.PartitionInactive, ring.PartitionPending}).Draw(rt, "state"),
			StateTimestamp: base - int64(rapid.IntRange(0, 60).Draw(rt, "age"))}
	}
	nOwners := rapid.IntRange(0, 3).Draw(rt, "owners")
	for o := 0; o < nOwners; o++ {
		d.Owners[fmt.Sprintf("o%d", o)] = ring.OwnerDesc{OwnedPartition: int32(rapid.IntRange(0, n-1).Draw(rt, "owned")), State: ring.OwnerActive, UpdatedTimestamp: base - 10}
	}
	return d
}

func clonePD(d *ring.PartitionRingDesc) *ring.PartitionRingDesc {
	out := ring.NewPartitionRingDesc()
	for id, p := range d.Partitions {
		c := p
		c.Tokens = append([]uint32{}, p.Tokens...)
		out.Partitions[id] = c
	}
	for id, o := range d.Owners {
		out.Owners[id] = o
	}
	return out
}

func genPQuery(rt *rapid.T) query {
	return query{
		Kind:   rapid.SampledFrom([]string{"route", "shard", "shard", "lookback", "lookback", "lookback", "size", "ranges", "all"}).Draw(rt, "queryKind"),
		Key:    rapid.Uint32().Draw(rt, "key") % 80,
		ID:     rapid.SampledFrom([]string{"t1", "t2", "t3"}).Draw(rt, "tenant"),
		Size:   rapid.IntRange(0, 9).Draw(rt, "size"),
		LbSec:  rapid.SampledFrom([]int{5, 30, 70}).Draw(rt, "lookback"),
		NowOff: rapid.IntRange(-20, 30).Draw(rt, "nowOff"),
		Nanos:  rapid.SampledFrom([]int64{0, 0, 1, 400_000_000, 999_999_999}).Draw(rt, "queryNanos"),
	}
}

func TestPartitionRingCacheRapid(t *testing.T) {
	rapid.Check(t, func(rt *rapid.T) {
		base := int64(1_000_000)
		d := genPDesc(rt, base, map[uint32]bool{})
		cacheSize := rapid.IntRange(0, 3).Draw(rt, "lruSize")
		long, err := ring.NewPartitionRingWithOptions(*clonePD(d), ring.PartitionRingOptions{ShuffleShardCacheSize: cacheSize})
		if err != nil {
			rt.Fatalf("NewPartitionRingWithOptions: %v", err)
		}
		asked := map[string]bool{}
		nq := rapid.IntRange(1, 24).Draw(rt, "queries")
		var stamps []int64
		for _, p := range d.Partitions {
			stamps = append(stamps, p.StateTimestamp)
		}
		sort.Slice(stamps, func(a, b int) bool { return stamps[a] < stamps[b] })
		for i := 0; i < nq; i++ {
			q := genPQuery(rt)
			if rapid.Bool().Draw(rt, "focus") {
				// few distinct cache keys, windows starting on / next to a state-change time
				q.Kind, q.ID, q.Size = "lookback", "t1", rapid.IntRange(1, 3).Draw(rt, "focusSize")
				q.LbSec = 30
				q.NowOff = int(stamps[rapid.IntRange(0, len(stamps)-1).Draw(rt, "anchor")] + int64(rapid.IntRange(-2, 2).Draw(rt, "anchorDelta")) + 30 - base)
				vx.Class("partition_lookback_window_anchored", 1)
			}
			fresh, err := ring.NewPartitionRing(*clonePD(d))
			if err != nil {
				rt.Fatalf("NewPartitionRing: %v", err)
			}
			vx.Eval(1)
			ck := fmt.Sprint(q.Kind, q.ID, q.Size, q.LbSec)
			if (q.Kind == "shard" || q.Kind == "lookback") && asked[ck] {
				vx.NonTrivial(vx.FP("pcache", fmt.Sprint(d), cacheSize, i, fmt.Sprint(q)))
			}
			asked[ck] = true
			a, f := answerP(long, q, base), answerP(fresh, q, base)
			if a != f {
				rt.Fatalf("query %d %+v (cache size %d)\n long-lived: %s\n fresh     : %s\n desc: %v", i, q, cacheSize, a, f, d)
			}
		}
	})
}

func TestPartitionWatcherRapid(t *testing.T) {
	rapid.Check(t, func(rt *rapid.T) {
		base := int64(1_000_000)
		used := map[uint32]bool{}
		var initial interface{}
		cur := ring.NewPartitionRingDesc()
		if rapid.Bool().Draw(rt, "hasInitial") {
			cur = genPDesc(rt, base, used)
			initial = clonePD(cur)
		}
		st := fakekv.NewPush(initial)
		w := ring.NewPartitionRingWatcherWithOptions("w", "key", st, ring.PartitionRingOptions{ShuffleShardCacheSize: rapid.IntRange(0, 2).Draw(rt, "lruSize")}, log.NewNopLogger(), nil)
		if err := services.StartAndAwaitRunning(context.Background(), w); err != nil {
			rt.Fatalf("start watcher: %v", err)
		}
		defer services.StopAndAwaitTerminated(context.Background(), w) //nolint:errcheck
		steps := rapid.IntRange(1, 10).Draw(rt, "steps")
		for s := 0; s < steps; s++ {
			if rapid.IntRange(0, 2).Draw(rt, "push") > 0 {
				switch rapid.IntRange(0, 3).Draw(rt, "change") {
				case 0:
					cur = genPDesc(rt, base+int64(s), used)
				case 1:
					cur = clonePD(cur)
					for id, p := range cur.Partitions {
						if p.State == ring.PartitionActive {
							p.State = ring.PartitionInactive
						} else {
							p.State = ring.PartitionActive
						}
						p.StateTimestamp = base + int64(s)
						cur.Partitions[id] = p
						break
					}
				case 2:
					cur = clonePD(cur)
					cur.Owners[fmt.Sprintf("x%d", s)] = ring.OwnerDesc{OwnedPartition: 0, State: ring.OwnerActive, UpdatedTimestamp: base + int64(s)}
				default:
					cur = clonePD(cur) // identical content
				}
				st.Send(clonePD(cur))
			}
			fresh, err := ring.NewPartitionRing(*clonePD(cur))
			if err != nil {
				rt.Fatalf("NewPartitionRing: %v", err)
			}
			nQueries := rapid.IntRange(1, 5).Draw(rt, "queries")
			for j := 0; j < nQueries; j++ {
				q := genPQuery(rt)
				vx.Eval(1)
				if s > 0 {
					vx.NonTrivial(vx.FP("watcher", s, j, fmt.Sprint(cur), fmt.Sprint(q)))
				}
				a, f := answerP(w.PartitionRing(), q, base), answerP(fresh, q, base)
				if a != f {
					rt.Fatalf("watcher after step %d, query %+v\n watcher: %s\n fresh  : %s", s, q, a, f)
				}
			}
		}
	})
}
