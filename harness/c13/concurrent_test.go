package c13

import (
	"fmt"
	"sort"
	"strings"
	"sync"
	"sync/atomic"
	"testing"
	"time"

	"pgregory.net/rapid"

	"github.com/grafana/dskit/ring"

	"verifharness/internal/fakekv"
	"verifharness/internal/vx"
)

// answer1 is one atomic query: a single call on the ring client, or the selection of a shard followed
// by a single call on it (a cached sub-ring keeps receiving heartbeat/state updates in place, so two
// calls on it are not a snapshot; one call is).
func answer1(r ring.ReadRing, q query, base time.Time) string {
	switch q.Kind {
	case "get":
		return canonSet(r.Get(q.Key, allOps[q.Size%len(allOps)], nil, nil, nil))
	case "healthy":
		return canonSet(r.GetAllHealthy(ring.Reporting))
	case "repl":
		return canonSet(r.GetReplicationSetForOperation(ring.Read))
	case "shard-healthy", "shard-get", "shard-has", "lookback-healthy", "lookback-has":
		var s ring.ReadRing
		if strings.HasPrefix(q.Kind, "shard") {
			s = r.ShuffleShard(q.ID, q.Size)
		} else {
			s = r.ShuffleShardWithLookback(q.ID, q.Size, time.Duration(q.LbSec)*time.Second, base.Add(time.Duration(q.NowOff)*time.Second))
		}
		if s == r {
			// the selection answered "the whole ring" and handed out the live client itself: a call on it
			// is a separate query (covered by the kinds above), not part of this one
			return "the whole ring"
		}
		switch {
		case strings.HasSuffix(q.Kind, "healthy"):
			return canonSet(s.GetAllHealthy(ring.Reporting))
		case strings.HasSuffix(q.Kind, "get"):
			return canonSet(s.Get(q.Key, ring.Write, nil, nil, nil))
		}
		return fmt.Sprint(s.HasInstance(q.Inst))
	case "ranges":
		tr, err := r.GetTokenRangesForInstance(q.Inst)
		return fmt.Sprint(tr, err != nil)
	case "inst":
		st, err := r.GetInstanceState(q.Inst)
		return fmt.Sprint(st, err)
	}
	return ""
}

// TestConcurrentReadersRapid: readers query a long-lived client (caches on) from several goroutines
// while a writer pushes a generated sequence of descriptor versions. Every answer must be the answer
// a fresh cache-less client gives for one of the versions that were current during the call
// (between the last push completed before the call began and the last push begun before it ended).
// Runs on real goroutines (no bubble); the update sequence and the queries are generated, the
// schedule is the machine's. Built with the race detector.
func TestConcurrentReadersRapid(t *testing.T) {
	rapid.Check(t, func(rt *rapid.T) {
		za := rapid.Bool().Draw(rt, "zoneAware")
		zones := []string{"a", "b", "c"}[:rapid.IntRange(1, 3).Draw(rt, "zones")]
		rf := rapid.IntRange(1, 3).Draw(rt, "rf")
		base := time.Now()
		cur := map[string]ring.InstanceDesc{}
		nextTok := uint32(1)
		freshTok := func() uint32 {
			nextTok += uint32(rapid.IntRange(1, 1<<24).Draw(rt, "tokStep"))
			return nextTok
		}
		// some writers (older lifecyclers) leave the Id field of their entries empty: clients fill it in from the key
		legacyWriters := rapid.IntRange(0, 2).Draw(rt, "legacyWriters") == 0
		idField := func(i int, id string) string {
			if legacyWriters && i%2 == 1 {
				return ""
			}
			return id
		}
		addInst := func(i int) {
			id := fmt.Sprintf("i%d", i)
			toks := []uint32{freshTok(), freshTok(), freshTok()}
			cur[id] = ring.InstanceDesc{Id: idField(i, id), Addr: id + ":1", Zone: zones[i%len(zones)], Tokens: toks, State: ring.ACTIVE, Timestamp: base.Unix(), RegisteredTimestamp: base.Unix() - int64(rapid.IntRange(0, 100).Draw(rt, "regAge"))}
		}
		n0 := rapid.IntRange(2, 6).Draw(rt, "n0")
		for i := 0; i < n0; i++ {
			addInst(i)
		}
		next := n0
		mk := func() *ring.Desc {
			d := ring.NewDesc()
			for k, v := range cur {
				d.Ingesters[k] = v
			}
			return d
		}
		versions := []*ring.Desc{mk()}
		var hist []string
		nv := rapid.IntRange(5, vx.Pick(25, 40)).Draw(rt, "versions")
		for v := 1; v <= nv; v++ {
			var xs []string
			for k := range cur {
				xs = append(xs, k)
			}
			sort.Strings(xs)
			pick := xs[rapid.IntRange(0, len(xs)-1).Draw(rt, "pick")]
			in := cur[pick]
			k := rapid.SampledFrom([]string{"heartbeat", "heartbeat", "state", "tokens", "zone", "ro", "reg", "add", "remove"}).Draw(rt, "update")
			switch k {
			case "heartbeat":
				in.Timestamp = base.Unix() + int64(v)
				cur[pick] = in
			case "state":
				in.State = rapid.SampledFrom([]ring.InstanceState{ring.ACTIVE, ring.LEAVING, ring.PENDING, ring.JOINING}).Draw(rt, "state")
				cur[pick] = in
			case "tokens":
				nt := append([]uint32(nil), in.Tokens...)
				nt[0] = freshTok()
				sort.Slice(nt, func(a, b int) bool { return nt[a] < nt[b] })
				in.Tokens = nt
				cur[pick] = in
			case "zone":
				in.Zone = rapid.SampledFrom(zones).Draw(rt, "newZone")
				cur[pick] = in
			case "ro":
				in.ReadOnly = !in.ReadOnly
				in.ReadOnlyUpdatedTimestamp = base.Unix() + int64(v)
				cur[pick] = in
			case "reg":
				in.RegisteredTimestamp = base.Unix() - int64(rapid.IntRange(0, 100).Draw(rt, "regAge2"))
				cur[pick] = in
			case "add":
				addInst(next)
				next++
			case "remove":
				if len(cur) > 2 {
					delete(cur, pick)
				}
			}
			hist = append(hist, fmt.Sprintf("v%d=%s(%s)", v, k, pick))
			versions = append(versions, mk())
		}
		// the fixed query set
		var queries []query
		nq := rapid.IntRange(6, 16).Draw(rt, "queries")
		for j := 0; j < nq; j++ {
			queries = append(queries, query{
				Kind:   rapid.SampledFrom([]string{"get", "healthy", "repl", "shard-healthy", "shard-get", "shard-has", "shard-healthy", "lookback-healthy", "lookback-has", "lookback-healthy", "ranges", "inst"}).Draw(rt, "queryKind"),
				Key:    rapid.Uint32().Draw(rt, "key"),
				ID:     rapid.SampledFrom([]string{"t1", "t2"}).Draw(rt, "tenant"),
				Size:   rapid.IntRange(0, 4).Draw(rt, "size"),
				LbSec:  rapid.SampledFrom([]int{5, 30}).Draw(rt, "lookback"),
				NowOff: rapid.IntRange(-10, 45).Draw(rt, "nowOff"),
				Inst:   fmt.Sprintf("i%d", rapid.IntRange(0, next).Draw(rt, "queryInst")),
			})
		}
		cfg := ring.Config{HeartbeatTimeout: time.Hour, ReplicationFactor: rf, ZoneAwarenessEnabled: za}
		// reference answers of a fresh cache-less client per version
		want := make([][]string, len(versions))
		for v, d := range versions {
			fresh := fakekv.NewRing(ring.Config{HeartbeatTimeout: time.Hour, ReplicationFactor: rf, ZoneAwarenessEnabled: za, SubringCacheDisabled: true}, d)
			for _, q := range queries {
				want[v] = append(want[v], answer1(fresh.Ring, q, base))
			}
			fresh.Stop()
		}
		long := fakekv.NewRing(cfg, versions[0])
		defer long.Stop()
		var started, done atomic.Int64
		var failMu sync.Mutex
		failure := ""
		var answered, overlapped atomic.Int64
		stop := make(chan struct{})
		var wg sync.WaitGroup
		readers := rapid.IntRange(2, 6).Draw(rt, "readers")
		for r := 0; r < readers; r++ {
			wg.Add(1)
			go func(r int) {
				defer wg.Done()
				for i := r; ; i++ {
					select {
					case <-stop:
						return
					default:
					}
					qi := i % len(queries)
					lo := done.Load()
					got := answer1(long.Ring, queries[qi], base)
					hi := started.Load()
					answered.Add(1)
					if hi > lo {
						overlapped.Add(1)
					}
					ok := false
					for v := lo; v <= hi; v++ {
						if want[v][qi] == got {
							ok = true
							break
						}
					}
					if !ok {
						failMu.Lock()
						if failure == "" {
							failure = fmt.Sprintf("reader %d, query %+v, issued between version %d and version %d:\n long-lived: %s", r, queries[qi], lo, hi, got)
							for v := lo; v <= hi; v++ {
								failure += fmt.Sprintf("\n fresh@%d  : %s", v, want[v][qi])
							}
						}
						failMu.Unlock()
						return
					}
				}
			}(r)
		}
		for v := 1; v < len(versions); v++ {
			started.Store(int64(v))
			long.Push(versions[v])
			done.Store(int64(v))
			if v%4 == 0 {
				time.Sleep(200 * time.Microsecond)
			}
		}
		time.Sleep(time.Millisecond)
		close(stop)
		wg.Wait()
		vx.Eval(int(answered.Load()))
		vx.Class("concurrent_answers", int(answered.Load()))
		vx.Class("concurrent_answers_overlapping_an_update", int(overlapped.Load()))
		if overlapped.Load() > 0 {
			vx.NonTrivial(vx.FP("concurrent", strings.Join(hist, ";"), fmt.Sprint(queries)))
		}
		if failure != "" {
			rt.Fatalf("%s\nhistory: %v", failure, hist)
		}
	})
}
