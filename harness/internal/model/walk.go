// Package model holds the reference models (oracles). They are written from the property
// statements and never call the functions under test.
package model

import (
	"sort"

	"github.com/grafana/dskit/ring"

	"verifharness/internal/gen"
)

// Walked is the outcome of the reference clockwise walk.
type Walked struct {
	IDs       []string // in walk order
	Empty     bool     // no token in the ring at all
	Wrapped   bool     // the walk passed the end of the circle
	Extended  bool     // some walked instance extended the set
	ZoneSkip  bool     // an instance was skipped because its zone was taken
	KeyIsTok  bool     // key equals a token
	RFExceeds bool     // RF > instances with tokens
}

// Walk: first token strictly greater than key (wrapping), one revolution, distinct instances, at most
// one counted instance per zone when zone-aware; an instance whose state extends the set for op is an
// extra (it consumes neither RF nor the zone slot).
func Walk(ins []gen.Inst, key uint32, op ring.Operation, rf int, zoneAware bool) Walked {
	type to struct {
		t uint32
		i int
	}
	var circle []to
	withTokens := 0
	for i, in := range ins {
		if len(in.Tokens) > 0 {
			withTokens++
		}
		for _, t := range in.Tokens {
			circle = append(circle, to{t, i})
		}
	}
	if len(circle) == 0 {
		return Walked{Empty: true}
	}
	sort.Slice(circle, func(a, b int) bool { return circle[a].t < circle[b].t })
	var w Walked
	w.RFExceeds = rf > withTokens
	start := 0
	for start < len(circle) && circle[start].t <= key {
		if circle[start].t == key {
			w.KeyIsTok = true
		}
		start++
	}
	if start == len(circle) {
		start = 0
		w.Wrapped = true
	}
	taken := map[int]bool{}
	zoneTaken := map[string]bool{}
	counted := 0
	for k := 0; k < len(circle) && counted < rf; k++ {
		pos := start + k
		if pos >= len(circle) {
			pos -= len(circle)
			w.Wrapped = true
		}
		c := circle[pos]
		in := ins[c.i]
		if taken[c.i] {
			continue
		}
		// an instance without a zone belongs to no availability zone: the one-per-zone rule does not bind it
		if zoneAware && in.Zone != "" && zoneTaken[in.Zone] {
			w.ZoneSkip = true
			continue
		}
		taken[c.i] = true
		w.IDs = append(w.IDs, in.ID)
		if Extends(op, in.State) {
			w.Extended = true
			continue
		}
		counted++
		if zoneAware && in.Zone != "" {
			zoneTaken[in.Zone] = true
		}
	}
	return w
}

// Healthy is the health predicate of the statement for a heartbeat timeout of timeoutSec.
func Healthy(in gen.Inst, op ring.Operation, timeoutSec int64) bool {
	return HealthyAt(in, op, timeoutSec*1000, 0)
}

// HealthyAt: the heartbeat is (AgeSec seconds + fracMs milliseconds) old, the timeout is timeoutMs.
func HealthyAt(in gen.Inst, op ring.Operation, timeoutMs int64, fracMs int64) bool {
	return StateHealthy(op, in.State) && in.AgeSec*1000+fracMs <= timeoutMs
}

// The tables of the four built-in operations, written out from their documentation (the model must
// not ask the code under test which states an operation accepts or extends on).
//
//	Write:         healthy {ACTIVE};                   extends on every state but ACTIVE
//	WriteNoExtend: healthy {ACTIVE};                   never extends
//	Read:          healthy {ACTIVE, PENDING, LEAVING}; extends on every state but ACTIVE and LEAVING
//	Reporting:     every state healthy;                never extends
func opName(op ring.Operation) string {
	switch op {
	case ring.Write:
		return "Write"
	case ring.WriteNoExtend:
		return "WriteNoExtend"
	case ring.Read:
		return "Read"
	case ring.Reporting:
		return "Reporting"
	}
	panic("model: not a built-in operation")
}

// StateHealthy: does the built-in operation accept an instance in that state.
func StateHealthy(op ring.Operation, s ring.InstanceState) bool {
	switch opName(op) {
	case "Write", "WriteNoExtend":
		return s == ring.ACTIVE
	case "Read":
		return s == ring.ACTIVE || s == ring.PENDING || s == ring.LEAVING
	}
	return true
}

// Extends: does an instance in that state enlarge the replica set of the built-in operation.
func Extends(op ring.Operation, s ring.InstanceState) bool {
	switch opName(op) {
	case "Write":
		return s != ring.ACTIVE
	case "Read":
		return s != ring.ACTIVE && s != ring.LEAVING
	}
	return false
}

// Expect is the expected lookup result.
type Expect struct {
	Err       bool
	IDs       []string // sorted
	MaxErrors int
	Filtered  bool // an unhealthy instance was filtered
}

// Lookup combines Walk and the majority arithmetic of the statement.
func Lookup(ins []gen.Inst, key uint32, op ring.Operation, rf int, zoneAware bool, timeoutSec int64) (Walked, Expect) {
	return LookupAt(ins, key, op, rf, zoneAware, timeoutSec*1000, 0)
}

// LookupAt is Lookup at an instant fracMs milliseconds past a whole second, with a timeout in milliseconds.
func LookupAt(ins []gen.Inst, key uint32, op ring.Operation, rf int, zoneAware bool, timeoutMs, fracMs int64) (Walked, Expect) {
	w := Walk(ins, key, op, rf, zoneAware)
	if w.Empty {
		return w, Expect{Err: true}
	}
	byID := map[string]gen.Inst{}
	for _, in := range ins {
		byID[in.ID] = in
	}
	var e Expect
	for _, id := range w.IDs {
		if HealthyAt(byID[id], op, timeoutMs, fracMs) {
			e.IDs = append(e.IDs, id)
		} else {
			e.Filtered = true
		}
	}
	sort.Strings(e.IDs)
	n := len(w.IDs)
	if rf > n {
		n = rf
	}
	minSuccess := n/2 + 1
	if len(e.IDs) < minSuccess {
		e.Err = true
		return w, e
	}
	e.MaxErrors = len(e.IDs) - minSuccess
	return w, e
}
