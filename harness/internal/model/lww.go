package model

import (
	"fmt"
	"sort"
	"strings"

	"github.com/grafana/dskit/ring"
)

// ---------------------------------------------------------------------------------------------
// Instance ring: one LWW register per instance id. A fact beats another if its timestamp is newer,
// or, at equal timestamps, if it is a removal and the other is not.

// CloneDesc deep-copies a descriptor (Desc.Clone shares token storage and Merge sorts in place).
func CloneDesc(d *ring.Desc) *ring.Desc {
	if d == nil {
		return nil
	}
	out := ring.NewDesc()
	for id, in := range d.Ingesters {
		c := in
		if in.Tokens != nil {
			c.Tokens = append([]uint32{}, in.Tokens...)
		}
		if in.Versions != nil {
			c.Versions = map[uint64]uint64{}
			for k, v := range in.Versions {
				c.Versions[k] = v
			}
		}
		out.Ingesters[id] = c
	}
	return out
}

func instBeats(a, b ring.InstanceDesc, bPresent bool) bool {
	if !bPresent {
		return true
	}
	if a.Timestamp != b.Timestamp {
		return a.Timestamp > b.Timestamp
	}
	return a.State == ring.LEFT && b.State != ring.LEFT
}

// normInst is the normal form the merge gives incoming entries: sorted unique tokens, none when LEFT.
func normInst(in ring.InstanceDesc) ring.InstanceDesc {
	if in.State == ring.LEFT {
		in.Tokens = nil
		return in
	}
	if len(in.Tokens) > 0 {
		t := append([]uint32{}, in.Tokens...)
		sort.Slice(t, func(a, b int) bool { return t[a] < t[b] })
		u := t[:1]
		for _, x := range t[1:] {
			if x != u[len(u)-1] {
				u = append(u, x)
			}
		}
		in.Tokens = u
	}
	return in
}

// JoinDesc is the reference join of two instance-ring states (tombstones kept).
func JoinDesc(a, b *ring.Desc) *ring.Desc {
	out := CloneDesc(a)
	if out == nil {
		out = ring.NewDesc()
	}
	if b == nil {
		return out
	}
	for id, in := range b.Ingesters {
		cur, ok := out.Ingesters[id]
		if instBeats(in, cur, ok) {
			out.Ingesters[id] = normInst(CloneDesc(&ring.Desc{Ingesters: map[string]ring.InstanceDesc{id: in}}).Ingesters[id])
		}
	}
	return out
}

// CanonInst renders one entry (nil and empty token lists are the same content).
func CanonInst(id string, in ring.InstanceDesc) string {
	var vs []string
	for k, v := range in.Versions {
		vs = append(vs, fmt.Sprintf("%d=%d", k, v))
	}
	sort.Strings(vs)
	toks := fmt.Sprint(in.Tokens)
	if len(in.Tokens) == 0 {
		toks = "[]"
	}
	return fmt.Sprintf("%s{%s@%d tok=%s addr=%s zone=%s reg=%d id=%s ro=%v@%d v=%v}", id, in.State, in.Timestamp, toks, in.Addr, in.Zone, in.RegisteredTimestamp, in.Id, in.ReadOnly, in.ReadOnlyUpdatedTimestamp, vs)
}

// CanonDesc renders a descriptor canonically (sorted by id).
func CanonDesc(d *ring.Desc) string {
	if d == nil {
		return "<nil>"
	}
	xs := make([]string, 0, len(d.Ingesters))
	for id, in := range d.Ingesters {
		xs = append(xs, CanonInst(id, in))
	}
	sort.Strings(xs)
	return strings.Join(xs, " ")
}

// ---------------------------------------------------------------------------------------------
// Partition ring: per partition one register for (state, stateTs; Deleted wins ties) and an
// independent one for (locked, lockTs; plain newer-wins); tokens immutable. Per owner one register
// (Deleted wins ties).

func ClonePDesc(d *ring.PartitionRingDesc) *ring.PartitionRingDesc {
	if d == nil {
		return nil
	}
	out := ring.NewPartitionRingDesc()
	for id, p := range d.Partitions {
		c := p
		if p.Tokens != nil {
			c.Tokens = append([]uint32{}, p.Tokens...)
		}
		out.Partitions[id] = c
	}
	for id, o := range d.Owners {
		out.Owners[id] = o
	}
	return out
}

func JoinPDesc(a, b *ring.PartitionRingDesc) *ring.PartitionRingDesc {
	out := ClonePDesc(a)
	if out == nil {
		out = ring.NewPartitionRingDesc()
	}
	if b == nil {
		return out
	}
	for id, p := range b.Partitions {
		cur, ok := out.Partitions[id]
		if !ok {
			c := p
			c.Tokens = append([]uint32{}, p.Tokens...)
			out.Partitions[id] = c
			continue
		}
		if p.StateTimestamp > cur.StateTimestamp || (p.StateTimestamp == cur.StateTimestamp && p.State == ring.PartitionDeleted && cur.State != ring.PartitionDeleted) {
			cur.State, cur.StateTimestamp = p.State, p.StateTimestamp
		}
		if p.StateChangeLockedTimestamp > cur.StateChangeLockedTimestamp {
			cur.StateChangeLocked, cur.StateChangeLockedTimestamp = p.StateChangeLocked, p.StateChangeLockedTimestamp
		}
		out.Partitions[id] = cur
	}
	for id, o := range b.Owners {
		cur, ok := out.Owners[id]
		if !ok || o.UpdatedTimestamp > cur.UpdatedTimestamp || (o.UpdatedTimestamp == cur.UpdatedTimestamp && o.State == ring.OwnerDeleted && cur.State != ring.OwnerDeleted) {
			out.Owners[id] = o
		}
	}
	return out
}

func CanonPart(id int32, p ring.PartitionDesc) string {
	return fmt.Sprintf("p%d{%v@%d lock=%v@%d tok=%v id=%d}", id, p.State, p.StateTimestamp, p.StateChangeLocked, p.StateChangeLockedTimestamp, p.Tokens, p.Id)
}

func CanonOwner(id string, o ring.OwnerDesc) string {
	return fmt.Sprintf("o%s{%v@%d part=%d}", id, o.State, o.UpdatedTimestamp, o.OwnedPartition)
}

func CanonPDesc(d *ring.PartitionRingDesc) string {
	if d == nil {
		return "<nil>"
	}
	var xs []string
	for id, p := range d.Partitions {
		xs = append(xs, CanonPart(id, p))
	}
	for id, o := range d.Owners {
		xs = append(xs, CanonOwner(id, o))
	}
	sort.Strings(xs)
	return strings.Join(xs, " ")
}

// CanonDescN / CanonPDescN render states with tombstones reduced to their identity (entry, removal
// timestamp): two replicas that removed the same entry in the same second keep different residual
// fields in their tombstones, which no reader can observe.
func CanonDescN(d *ring.Desc) string {
	if d == nil {
		return "<nil>"
	}
	xs := make([]string, 0, len(d.Ingesters))
	for id, in := range d.Ingesters {
		if in.State == ring.LEFT {
			xs = append(xs, fmt.Sprintf("%s{LEFT@%d}", id, in.Timestamp))
			continue
		}
		xs = append(xs, CanonInst(id, in))
	}
	sort.Strings(xs)
	return strings.Join(xs, " ")
}

func CanonPDescN(d *ring.PartitionRingDesc) string {
	if d == nil {
		return "<nil>"
	}
	var xs []string
	for id, p := range d.Partitions {
		if p.State == ring.PartitionDeleted {
			xs = append(xs, fmt.Sprintf("p%d{Deleted@%d lock=%v@%d}", id, p.StateTimestamp, p.StateChangeLocked, p.StateChangeLockedTimestamp))
			continue
		}
		xs = append(xs, CanonPart(id, p))
	}
	for id, o := range d.Owners {
		if o.State == ring.OwnerDeleted {
			xs = append(xs, fmt.Sprintf("o%s{Deleted@%d}", id, o.UpdatedTimestamp))
			continue
		}
		xs = append(xs, CanonOwner(id, o))
	}
	sort.Strings(xs)
	return strings.Join(xs, " ")
}

// StripDesc returns a copy of d without its removal markers (written out by hand: the oracles must not ask
// the library what a reader may see).
func StripDesc(d *ring.Desc) *ring.Desc {
	c := CloneDesc(d)
	for id, in := range c.Ingesters {
		if in.State == ring.LEFT {
			delete(c.Ingesters, id)
		}
	}
	return c
}

// StripPDesc is StripDesc for partition rings: deleted partitions and deleted owners go, nothing else.
func StripPDesc(p *ring.PartitionRingDesc) *ring.PartitionRingDesc {
	c := ClonePDesc(p)
	for id, pd := range c.Partitions {
		if pd.State == ring.PartitionDeleted {
			delete(c.Partitions, id)
		}
	}
	for id, o := range c.Owners {
		if o.State == ring.OwnerDeleted {
			delete(c.Owners, id)
		}
	}
	return c
}
