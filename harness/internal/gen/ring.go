// Package gen holds the rapid generators shared by the ring harnesses.
package gen

import (
	"fmt"
	"sort"
	"time"

	"pgregory.net/rapid"

	"github.com/grafana/dskit/ring"
)

const MaxU = ^uint32(0)

// Alphabet is the boundary-biased token alphabet T*.
var Alphabet = []uint32{0, 1, 2, 3, 5, 8, 1<<31 - 1, 1 << 31, MaxU - 2, MaxU - 1, MaxU}

// Inst is the harness-side description of one ring member.
type Inst struct {
	ID     string             `json:"id"`
	Zone   string             `json:"zone"`
	Tokens []uint32           `json:"tokens"`
	State  ring.InstanceState `json:"state"`
	AgeSec int64              `json:"age_s"` // now - heartbeat timestamp, seconds (negative = future)
	RO     bool               `json:"read_only,omitempty"`
}

func (i Inst) String() string {
	ro := ""
	if i.RO {
		ro = " read-only"
	}
	return fmt.Sprintf("{%s z=%q %v %s age=%ds%s}", i.ID, i.Zone, i.Tokens, i.State, i.AgeSec, ro)
}

var LiveStates = []ring.InstanceState{ring.ACTIVE, ring.LEAVING, ring.PENDING, ring.JOINING}

// Ages relative to a heartbeat timeout of 60 s: fresh, just inside, exactly at, just outside, long dead, future.
var Ages = []int64{0, 59, 60, 61, 600, -5}

// Opts parametrises Instances.
type Opts struct {
	MinN, MaxN   int
	Zones        []string // nil => unzoned
	MinTok       int
	MaxTok       int
	ReadOnly     bool // a fifth of the members are flagged read-only (lookups by key do not treat them differently)
	HealthyBias  bool // 75 % ACTIVE and fresh
	UniformShare int  // 0..100: percentage of tokens drawn uniformly instead of from the alphabet (default 50)
}

// Token draws a token not in used (constructive; gives up after a few collisions).
func Token(rt *rapid.T, used map[uint32]bool, uniformShare int) (uint32, bool) {
	for try := 0; try < 6; try++ {
		var tk uint32
		if rapid.IntRange(0, 99).Draw(rt, "tkUniform") < uniformShare {
			tk = rapid.Uint32().Draw(rt, "tkAny")
		} else {
			tk = rapid.SampledFrom(Alphabet).Draw(rt, "tk")
		}
		if !used[tk] {
			used[tk] = true
			return tk, true
		}
	}
	return 0, false
}

// Instances draws a list of ring members with globally unique tokens.
func Instances(rt *rapid.T, o Opts) []Inst {
	if o.MaxTok == 0 {
		o.MaxTok = 4
	}
	if o.UniformShare == 0 {
		o.UniformShare = 50
	}
	n := rapid.IntRange(o.MinN, o.MaxN).Draw(rt, "n")
	used := map[uint32]bool{}
	out := make([]Inst, 0, n)
	for i := 0; i < n; i++ {
		in := Inst{ID: fmt.Sprintf("i%d", i)}
		if len(o.Zones) > 0 {
			in.Zone = rapid.SampledFrom(o.Zones).Draw(rt, "zone")
		}
		nt := rapid.IntRange(o.MinTok, o.MaxTok).Draw(rt, "nt")
		for j := 0; j < nt; j++ {
			if tk, ok := Token(rt, used, o.UniformShare); ok {
				in.Tokens = append(in.Tokens, tk)
			}
		}
		sort.Slice(in.Tokens, func(a, b int) bool { return in.Tokens[a] < in.Tokens[b] })
		if o.HealthyBias && rapid.IntRange(0, 3).Draw(rt, "healthy") != 0 {
			in.State, in.AgeSec = ring.ACTIVE, 0
		} else {
			in.State = rapid.SampledFrom(LiveStates).Draw(rt, "state")
			in.AgeSec = rapid.SampledFrom(Ages).Draw(rt, "age")
		}
		if o.ReadOnly && rapid.IntRange(0, 4).Draw(rt, "readOnly") == 0 {
			in.RO = true
		}
		out = append(out, in)
	}
	return out
}

// Desc renders the members as a ring descriptor at instant now.
func Desc(ins []Inst, now time.Time) *ring.Desc {
	d := ring.NewDesc()
	for _, in := range ins {
		d.Ingesters[in.ID] = ring.InstanceDesc{
			Id: in.ID, Addr: in.ID + ":1", Zone: in.Zone,
			Tokens: append([]uint32(nil), in.Tokens...), State: in.State,
			Timestamp: now.Unix() - in.AgeSec, RegisteredTimestamp: now.Unix() - 100000,
			ReadOnly: in.RO, ReadOnlyUpdatedTimestamp: map[bool]int64{true: now.Unix() - 500, false: 0}[in.RO],
		}
	}
	return d
}

// BoundaryKeys returns, for every token t, t-1, t, t+1 (mod 2^32) plus 0, 1, 2^32-1, de-duplicated.
func BoundaryKeys(ins []Inst, extra ...uint32) []uint32 {
	seen := map[uint32]bool{}
	var keys []uint32
	add := func(k uint32) {
		if !seen[k] {
			seen[k] = true
			keys = append(keys, k)
		}
	}
	for _, in := range ins {
		for _, t := range in.Tokens {
			add(t - 1)
			add(t)
			add(t + 1)
		}
	}
	add(0)
	add(1)
	add(MaxU)
	for _, k := range extra {
		add(k)
	}
	return keys
}
