//go:build verif

package gossip

import (
	"context"
	"fmt"
	"math"
	"sort"
	"strings"
	"time"

	"pgregory.net/rapid"

	"github.com/grafana/dskit/kv/memberlist"
	"github.com/grafana/dskit/ring"

	"verifharness/internal/model"
	"verifharness/internal/vx"
)

// Opts selects what a generated history emphasises.
type Opts struct {
	MinNodes, MaxNodes int
	MaxSteps           int
	ShortRetention     bool // tombstone retention of 30 s: garbage collection is reachable, direct invariants only
	Faults             bool // drops, corruption, partitions, restarts
	Flow               bool // finish with the heal-and-flow phase and the convergence checks
	RemovalBias        bool // more removals and more deliveries of old messages (C04)
}

// Result is what one history produced.
type Result struct {
	Failure string
	History []string
	Stats   map[string]int
	// non-triviality witnesses
	ResurrectionHazards int // old message delivered to a replica that knows the removal
	SameSecondHazards   int
	DroppedOrReordered  int
	PartitionsOrRestart int
	MultiNodeCAS        bool
}

const retentionShort = 30 * time.Second

type engine struct {
	rt      *rapid.T
	c       *Cluster
	o       Opts
	res     *Result
	instIDs []string
	parts   []int32
	owners  []string
	casBy   map[string]map[int]bool // key -> nodes that issued a CAS
	// tombstones each node is known to hold: node -> entity -> ts
	knownTomb    []map[string]int64
	delivered    map[int]map[int]bool // wire id -> nodes it was delivered to
	maxDelivered []int                // per node: highest wire id delivered so far (reordering witness)
	restartedAt  []time.Time
	strict       bool
	tainted      bool // a corrupted message that still decodes was merged: its content is not a fact any writer produced
}

func (e *engine) failf(f string, a ...any) {
	if e.res.Failure == "" {
		e.res.Failure = fmt.Sprintf(f, a...)
	}
}

func (e *engine) log(f string, a ...any) {
	e.res.History = append(e.res.History, fmt.Sprintf("t=%v ", time.Now().Format("15:04:05.000"))+fmt.Sprintf(f, a...))
}

func homeOf(idx, n int) int { return idx % n }

func instPool(idx int) []uint32 {
	return []uint32{uint32(idx*10 + 1), uint32(idx*10 + 2), uint32(idx*10 + 3)}
}

// tombstonesOf lists entity -> tombstone timestamp for a full state.
func tombstonesOf(r *ring.Desc, p *ring.PartitionRingDesc) map[string]int64 {
	out := map[string]int64{}
	for id, in := range r.Ingesters {
		if in.State == ring.LEFT {
			out["i:"+id] = in.Timestamp
		}
	}
	for id, pd := range p.Partitions {
		if pd.State == ring.PartitionDeleted {
			out[fmt.Sprintf("p:%d", id)] = pd.StateTimestamp
		}
	}
	for id, o := range p.Owners {
		if o.State == ring.OwnerDeleted {
			out["o:"+id] = o.UpdatedTimestamp
		}
	}
	return out
}

// liveOf lists entity -> timestamp of live (non-tombstone) entries.
func liveOf(r *ring.Desc, p *ring.PartitionRingDesc) map[string]int64 {
	out := map[string]int64{}
	if r != nil {
		for id, in := range r.Ingesters {
			if in.State != ring.LEFT {
				out["i:"+id] = in.Timestamp
			}
		}
	}
	if p != nil {
		for id, pd := range p.Partitions {
			if pd.State != ring.PartitionDeleted {
				out[fmt.Sprintf("p:%d", id)] = pd.StateTimestamp
			}
		}
		for id, o := range p.Owners {
			if o.State != ring.OwnerDeleted {
				out["o:"+id] = o.UpdatedTimestamp
			}
		}
	}
	return out
}

// afterMerge runs the checks shared by every state-changing step on node i.
//   - readers never see tombstones and see exactly the store minus tombstones
//   - new tombstones are forwarded (next broadcasts carry them)
//   - retained tombstones are still there (short-retention mode)
func (e *engine) afterMerge(i int, what string, bR *ring.Desc, bP *ring.PartitionRingDesc, expectForward bool) {
	aR, aP := e.c.State(i)
	e.c.NoteChange(i)
	vis, err := e.c.Visible(i)
	if err != nil {
		e.failf("%s: %v", what, err)
		return
	}
	if want := VisibleOf(aR, aP); vis != want {
		e.failf("%s: readers of node %d see %s but the store without tombstones is %s", what, i, vis, want)
		return
	}
	before, after := tombstonesOf(bR, bP), tombstonesOf(aR, aP)
	var fresh []string
	for ent, ts := range after {
		if old, ok := before[ent]; !ok || old != ts {
			fresh = append(fresh, ent)
		}
		if cur, ok := e.knownTomb[i][ent]; !ok || ts > cur {
			e.knownTomb[i][ent] = ts
		}
	}
	sort.Strings(fresh)
	if len(fresh) > 0 && expectForward {
		// tombstones are forwarded to peers like any other change
		msgs := e.c.GossipRound(i, math.MaxInt32)
		carried := map[string]bool{}
		for _, m := range msgs {
			r, p := m.Ring, m.PRing
			if r == nil {
				r = ring.NewDesc()
			}
			if p == nil {
				p = ring.NewPartitionRingDesc()
			}
			for ent := range tombstonesOf(r, p) {
				carried[ent] = true
			}
		}
		for _, ent := range fresh {
			if !carried[ent] {
				e.failf("%s: node %d learned the removal of %s but none of its next %d broadcasts carries the tombstone", what, i, ent, len(msgs))
				return
			}
		}
		e.res.Stats["tombstones_forwarded"] += len(fresh)
	}
}

// checkRetention: a tombstone a node has learned is kept while younger than the retention (or replaced by newer data).
func (e *engine) checkRetention(retention time.Duration) {
	now := time.Now()
	for i := 0; i < e.c.N; i++ {
		r, p := e.c.State(i)
		tomb, live := tombstonesOf(r, p), liveOf(r, p)
		for ent, ts := range e.knownTomb[i] {
			if now.Sub(time.Unix(ts, 0)) >= retention {
				continue
			}
			if cur, ok := tomb[ent]; ok && cur >= ts {
				continue
			}
			if cur, ok := live[ent]; ok && cur > ts {
				continue // superseded by a newer registration
			}
			e.failf("node %d discarded the tombstone of %s (removed at %d) only %v after the removal, retention is %v; store: %s", i, ent, ts, now.Sub(time.Unix(ts, 0)), retention, e.c.Canon(i))
			return
		}
	}
}

// cas issues one compare-and-swap on the ring key of node i and checks the resulting store.
func (e *engine) casRing(i int, what string, f func(d *ring.Desc, now time.Time) bool) {
	bR, bP := e.c.State(i)
	var out *ring.Desc
	var at time.Time
	applied := false
	err := e.c.RingC[i].CAS(context.Background(), RingKey, func(in interface{}) (interface{}, bool, error) {
		d := ring.GetOrCreateRingDesc(in)
		if t := Tombstones(d, nil); t != "" {
			e.failf("%s: the CAS function on node %d was handed a tombstone: %s", what, i, t)
		}
		at = time.Now()
		if !f(d, at) {
			applied = false
			return nil, false, nil
		}
		applied = true
		out = model.CloneDesc(d)
		return d, true, nil
	})
	vx.Wait()
	e.casBy[RingKey][i] = true
	if err != nil {
		e.res.Stats["cas_errors"]++
		if got := e.c.Canon(i); got != "ring["+model.CanonDescN(bR)+"] pring["+model.CanonPDescN(bP)+"]" {
			e.failf("%s: CAS on node %d failed (%v) but the store changed to %s", what, i, err, got)
		}
		return
	}
	if !applied {
		return
	}
	if e.strict {
		want := model.JoinDesc(bR, out)
		for id, in := range bR.Ingesters {
			if _, ok := out.Ingesters[id]; !ok && in.State != ring.LEFT {
				in.State, in.Tokens, in.Timestamp = ring.LEFT, nil, at.Unix()
				want.Ingesters[id] = in
			}
		}
		aR, _ := e.c.State(i)
		if model.CanonDescN(aR) != model.CanonDescN(want) {
			e.failf("%s: after the acknowledged CAS node %d holds %s, expected %s (before: %s)", what, i, model.CanonDescN(aR), model.CanonDescN(want), model.CanonDescN(bR))
			return
		}
	}
	e.afterMerge(i, what, bR, bP, true)
}

func (e *engine) casPRing(i int, what string, f func(d *ring.PartitionRingDesc, now time.Time) bool) {
	bR, bP := e.c.State(i)
	var out *ring.PartitionRingDesc
	var at time.Time
	applied := false
	err := e.c.PRingC[i].CAS(context.Background(), PRingKey, func(in interface{}) (interface{}, bool, error) {
		d := ring.GetOrCreatePartitionRingDesc(in)
		if t := Tombstones(nil, d); t != "" {
			e.failf("%s: the CAS function on node %d was handed a tombstone: %s", what, i, t)
		}
		at = time.Now()
		if !f(d, at) {
			applied = false
			return nil, false, nil
		}
		applied = true
		out = model.ClonePDesc(d)
		return d, true, nil
	})
	vx.Wait()
	e.casBy[PRingKey][i] = true
	if err != nil {
		e.res.Stats["cas_errors"]++
		if got := e.c.Canon(i); got != "ring["+model.CanonDescN(bR)+"] pring["+model.CanonPDescN(bP)+"]" {
			e.failf("%s: CAS on node %d failed (%v) but the store changed to %s", what, i, err, got)
		}
		return
	}
	if !applied {
		return
	}
	if e.strict {
		want := model.JoinPDesc(bP, out)
		for id, pd := range bP.Partitions {
			if _, ok := out.Partitions[id]; !ok && pd.State != ring.PartitionDeleted {
				pd.State, pd.StateTimestamp = ring.PartitionDeleted, at.Unix()
				want.Partitions[id] = pd
			}
		}
		for id, o := range bP.Owners {
			if _, ok := out.Owners[id]; !ok && o.State != ring.OwnerDeleted {
				o.State, o.UpdatedTimestamp = ring.OwnerDeleted, at.Unix()
				want.Owners[id] = o
			}
		}
		_, aP := e.c.State(i)
		if model.CanonPDescN(aP) != model.CanonPDescN(want) {
			e.failf("%s: after the acknowledged CAS node %d holds %s, expected %s (before: %s)", what, i, model.CanonPDescN(aP), model.CanonPDescN(want), model.CanonPDescN(bP))
			return
		}
	}
	e.afterMerge(i, what, bR, bP, true)
}

// deliver hands wire w to node `to` with the per-step checks.
func (e *engine) deliver(w *Wire, to int) {
	bR, bP := e.c.State(to)
	bTomb := tombstonesOf(bR, bP)
	// resurrection hazard: the message carries a live entry not newer than a tombstone the node holds
	mr, mp := w.Ring, w.PRing
	if mr == nil {
		mr = ring.NewDesc()
	}
	if mp == nil {
		mp = ring.NewPartitionRingDesc()
	}
	var hazards []string
	for ent, ts := range liveOf(mr, mp) {
		if tts, ok := bTomb[ent]; ok && ts <= tts {
			hazards = append(hazards, ent)
			e.res.ResurrectionHazards++
			if ts == tts {
				e.res.SameSecondHazards++
			}
		}
	}
	if w.ID < e.maxDelivered[to] {
		e.res.DroppedOrReordered++
	} else {
		e.maxDelivered[to] = w.ID
	}
	if e.delivered[w.ID] == nil {
		e.delivered[w.ID] = map[int]bool{}
	}
	if e.delivered[w.ID][to] {
		e.res.Stats["duplicate_deliveries"]++
	}
	e.delivered[w.ID][to] = true
	what := fmt.Sprintf("deliver message #%d (from node %d, key %s: %s) to node %d", w.ID, w.From, w.Key, wireCanon(w), to)
	e.log("%s", what)
	// a removal newer than what the node holds alive takes effect however old it is (the tombstone may
	// then be discarded at once if it is beyond the retention, the entry may not stay)
	bLive := liveOf(bR, bP)
	overdue := map[string]int64{}
	if !e.tainted && ((w.Key == RingKey && w.Ring != nil) || (w.Key == PRingKey && w.PRing != nil)) {
		// (a corrupted copy that still decodes may carry another key or another content: not a removal of ours)
		for ent, tts := range tombstonesOf(mr, mp) {
			if ts, ok := bLive[ent]; ok && ts <= tts {
				overdue[ent] = tts
			}
		}
	}
	e.c.Deliver(w, to)
	aR, aP := e.c.State(to)
	aLive := liveOf(aR, aP)
	for ent, tts := range overdue {
		if ts, ok := aLive[ent]; ok && ts <= tts {
			e.res.Stats["removals_delivered_to_a_node_holding_the_entry_alive"]++
			e.failf("%s: the message carries the removal of %s at %d, the node held it alive at %d and still does (at %d) after the delivery", what, ent, tts, bLive[ent], ts)
			return
		}
		e.res.Stats["removals_delivered_to_a_node_holding_the_entry_alive"]++
	}
	for _, ent := range hazards {
		if ts, ok := aLive[ent]; ok {
			e.failf("%s: %s was removed on this node (tombstone at %d) and reappeared (live at %d) through a message produced before the removal", what, ent, bTomb[ent], ts)
			return
		}
	}
	if e.strict {
		wantR, wantP := bR, bP
		if w.Key == RingKey {
			wantR = model.JoinDesc(bR, mr)
		} else {
			wantP = model.JoinPDesc(bP, mp)
		}
		if model.CanonDescN(aR) != model.CanonDescN(wantR) || model.CanonPDescN(aP) != model.CanonPDescN(wantP) {
			e.failf("%s: node holds ring[%s] pring[%s], expected the last-writer-wins join ring[%s] pring[%s]", what, model.CanonDescN(aR), model.CanonPDescN(aP), model.CanonDescN(wantR), model.CanonPDescN(wantP))
			return
		}
	} else if e.o.ShortRetention {
		// short retention: a tombstone older than the retention must not be stored
		now := time.Now()
		for ent, ts := range tombstonesOf(aR, aP) {
			if _, had := bTomb[ent]; !had && now.Sub(time.Unix(ts, 0)) > retentionShort+time.Second {
				e.failf("%s: node stored the tombstone of %s that is %v old (retention %v)", what, ent, now.Sub(time.Unix(ts, 0)), retentionShort)
				return
			}
		}
	}
	e.afterMerge(to, what, bR, bP, true)
}

// burst hands the wires (all for one key) to node `to` back to back; what the node holds afterwards is the
// join of what it held and all of them, in whatever order it worked them off.
func (e *engine) burst(ws []*Wire, to int) {
	bR, bP := e.c.State(to)
	bTomb := tombstonesOf(bR, bP)
	wantR, wantP := bR, bP
	var ids []string
	for _, w := range ws {
		if w.Key == RingKey {
			wantR = model.JoinDesc(wantR, w.Ring)
		} else {
			wantP = model.JoinPDesc(wantP, w.PRing)
		}
		if w.ID < e.maxDelivered[to] {
			e.res.DroppedOrReordered++
		} else {
			e.maxDelivered[to] = w.ID
		}
		if e.delivered[w.ID] == nil {
			e.delivered[w.ID] = map[int]bool{}
		}
		e.delivered[w.ID][to] = true
		ids = append(ids, fmt.Sprintf("#%d (from node %d: %s)", w.ID, w.From, wireCanon(w)))
	}
	what := fmt.Sprintf("burst of messages for key %s to node %d while its worker is busy with the first: %s", ws[0].Key, to, strings.Join(ids, ", "))
	e.log("%s", what)
	e.c.Burst(ws, to)
	e.res.Stats["bursts_of_messages_delivered_while_the_worker_is_busy"]++
	aR, aP := e.c.State(to)
	aLive := liveOf(aR, aP)
	for ent, tts := range bTomb {
		if e.o.ShortRetention && time.Since(time.Unix(tts, 0)) >= retentionShort {
			// beyond its retention the tombstone may be discarded after the first of the messages, and no
			// longer stands in the way of the next
			continue
		}
		if ts, ok := aLive[ent]; ok && ts <= tts {
			e.failf("%s: %s was removed on this node (tombstone at %d) and reappeared (live at %d)", what, ent, tts, ts)
			return
		}
	}
	if e.strict {
		if model.CanonDescN(aR) != model.CanonDescN(wantR) || model.CanonPDescN(aP) != model.CanonPDescN(wantP) {
			e.failf("%s: node holds ring[%s] pring[%s], expected the last-writer-wins join of what it held and every message: ring[%s] pring[%s]", what, model.CanonDescN(aR), model.CanonPDescN(aP), model.CanonDescN(wantR), model.CanonPDescN(wantP))
			return
		}
	}
	e.afterMerge(to, what, bR, bP, true)
}

func wireCanon(w *Wire) string {
	if w.Ring != nil {
		return model.CanonDescN(w.Ring)
	}
	return model.CanonPDescN(w.PRing)
}

func (e *engine) pushPull(from, to int) {
	bR, bP := e.c.State(to)
	fR, fP := e.c.State(from)
	what := fmt.Sprintf("push/pull %d -> %d", from, to)
	e.log("%s", what)
	bTomb := tombstonesOf(bR, bP)
	var hazards []string
	for ent, ts := range liveOf(fR, fP) {
		if tts, ok := bTomb[ent]; ok && ts <= tts {
			hazards = append(hazards, ent)
			e.res.ResurrectionHazards++
		}
	}
	e.c.JoinExchange = rapid.Bool().Draw(e.rt, "exchangeFlaggedJoin")
	e.c.PushPull(from, to)
	e.c.JoinExchange = false
	aR, aP := e.c.State(to)
	aLive := liveOf(aR, aP)
	for _, ent := range hazards {
		if _, ok := aLive[ent]; ok {
			e.failf("%s: %s was removed on node %d and reappeared through a full-state exchange carrying older data", what, ent, to)
			return
		}
	}
	if e.strict {
		wantR, wantP := model.JoinDesc(bR, fR), model.JoinPDesc(bP, fP)
		if model.CanonDescN(aR) != model.CanonDescN(wantR) || model.CanonPDescN(aP) != model.CanonPDescN(wantP) {
			e.failf("%s: node %d holds ring[%s] pring[%s], expected the join ring[%s] pring[%s]", what, to, model.CanonDescN(aR), model.CanonPDescN(aP), model.CanonDescN(wantR), model.CanonPDescN(wantP))
			return
		}
	}
	e.afterMerge(to, what, bR, bP, true)
}

// corrupt returns a damaged copy of a gossip message.
func corrupt(rt *rapid.T, data []byte) ([]byte, string) {
	d := append([]byte(nil), data...)
	switch rapid.IntRange(0, 5).Draw(rt, "corruptKind") {
	case 0:
		n := rapid.IntRange(0, len(d)).Draw(rt, "truncateAt")
		return d[:n], fmt.Sprintf("truncated to %d bytes", n)
	case 1:
		if len(d) == 0 {
			return d, "empty"
		}
		i := rapid.IntRange(0, len(d)-1).Draw(rt, "flipAt")
		d[i] ^= 1 << uint(rapid.IntRange(0, 7).Draw(rt, "flipBit"))
		return d, fmt.Sprintf("bit flipped at byte %d", i)
	case 2:
		var p memberlist.KeyValuePair
		_ = p.Unmarshal(d)
		p.Codec = "nope"
		b, _ := p.Marshal()
		return b, "unknown codec id"
	case 3:
		var p memberlist.KeyValuePair
		_ = p.Unmarshal(d)
		p.Key = ""
		b, _ := p.Marshal()
		return b, "empty key"
	case 4:
		return rapid.SliceOfN(rapid.Byte(), 0, 40).Draw(rt, "randomBytes"), "random bytes"
	default:
		var p memberlist.KeyValuePair
		_ = p.Unmarshal(d)
		p.Value = rapid.SliceOfN(rapid.Byte(), 0, 30).Draw(rt, "garbageValue")
		b, _ := p.Marshal()
		return b, "garbage value"
	}
}

// Malformed reports whether a gossip message is malformed by the harness's own reading of the
// exported wire format: it does not unmarshal, has an empty key, an unregistered codec id, or a
// value the registered codec cannot decode.
func Malformed(data []byte) bool {
	var p memberlist.KeyValuePair
	if err := p.Unmarshal(data); err != nil {
		return true
	}
	if p.Key == "" {
		return true
	}
	v := p.Value
	if len(v) == 0 {
		return false // an empty value is read as an empty descriptor
	}
	_, _, ok := decodeValue(p)
	return !ok
}

// RunHistory generates and executes one history inside the current bubble.
func RunHistory(rt *rapid.T, b *vx.B, o Opts) *Result {
	res := &Result{Stats: map[string]int{}}
	n := rapid.IntRange(o.MinNodes, o.MaxNodes).Draw(rt, "nodes")
	retransmit := rapid.IntRange(1, 4).Draw(rt, "retransmitMult")
	notify := time.Duration(0)
	if rapid.IntRange(0, 3).Draw(rt, "notifyInterval") == 0 {
		notify = 2 * time.Second
	}
	obsolete := time.Duration(rapid.SampledFrom([]int{1, 2, 5, 30}).Draw(rt, "cleanupPeriodS")) * time.Second
	neverExpire := !o.ShortRetention && rapid.IntRange(0, 3).Draw(rt, "retentionNever") == 0
	if neverExpire {
		res.Stats["histories_with_retention_never"]++
	}
	c := NewCluster(b, n, func(cfg *memberlist.KVConfig) {
		cfg.RetransmitMult = retransmit
		cfg.NotifyInterval = notify
		if o.ShortRetention {
			cfg.LeftIngestersTimeout = retentionShort
		} else if neverExpire {
			cfg.LeftIngestersTimeout = 0 // documented: tombstones are never discarded
		}
		// the periodic cleanup of deleted keys has its own, shorter period
		cfg.ObsoleteEntriesTimeout = obsolete
	})
	e := &engine{rt: rt, c: c, o: o, res: res, instIDs: []string{"a", "b", "c", "d"}, parts: []int32{0, 1, 2}, owners: []string{"o0", "o1"},
		casBy: map[string]map[int]bool{RingKey: {}, PRingKey: {}}, delivered: map[int]map[int]bool{}, strict: !o.ShortRetention}
	e.knownTomb = make([]map[string]int64, n)
	e.maxDelivered = make([]int, n)
	e.restartedAt = make([]time.Time, n)
	for i := range e.knownTomb {
		e.knownTomb[i] = map[string]int64{}
	}
	res.Stats["nodes"] = n
	steps := rapid.IntRange(5, o.MaxSteps).Draw(rt, "steps")
	states := []ring.InstanceState{ring.ACTIVE, ring.PENDING, ring.JOINING, ring.LEAVING}
	pstates := []ring.PartitionState{ring.PartitionPending, ring.PartitionActive, ring.PartitionInactive}

	kinds := []string{"burst", "burst", "deliver", "deliver", "deliver", "deliver", "gossip", "gossip", "gossip", "unregister", "unregister", "pushpull", "register", "register", "heartbeat", "heartbeat",
		"removeOwner", "removePartition", "addPartition", "partitionState", "addOwner", "partitionLock", "advance", "read", "watch", "watch", "unwatch", "replace", "cleanup", "lockRace"}
	if o.Faults {
		kinds = append(kinds, "drop", "drop", "restart", "partition", "corrupt", "gossipLimited", "heal")
	}
	if o.RemovalBias {
		kinds = append(kinds, "replace", "replace", "cleanup", "advance", "deliverOld", "deliverOld", "hazard", "hazard", "hazard", "unregister", "removeOwner", "removePartition", "advanceSmall")
	}
	if o.ShortRetention {
		kinds = append(kinds, "advanceLong", "advanceLong", "deliverOld", "overdueRemoval", "overdueRemoval")
	}
	timeBefore := make([]string, n)
	for s := 0; s < steps && res.Failure == ""; s++ {
		kind := kinds[vx.Mix(rapid.Uint64().Draw(rt, "op"), len(kinds))]
		node := rapid.IntRange(0, n-1).Draw(rt, "node")
		res.Stats["op_"+kind]++
		if e.strict && (kind == "advance" || kind == "advanceSmall" || kind == "advanceLong") {
			for i := 0; i < n; i++ {
				timeBefore[i] = c.Canon(i)
			}
		}
		switch kind {
		case "register", "heartbeat":
			idx := rapid.IntRange(0, len(e.instIDs)-1).Draw(rt, "instance")
			id := e.instIDs[idx]
			home := homeOf(idx, n)
			st := rapid.SampledFrom(states).Draw(rt, "state")
			ntok := rapid.IntRange(0, 3).Draw(rt, "tokens")
			what := fmt.Sprintf("%s instance %s on its home node %d (state %v)", kind, id, home, st)
			e.log("%s", what)
			e.casRing(home, what, func(d *ring.Desc, now time.Time) bool {
				cur, ok := d.Ingesters[id]
				if kind == "heartbeat" {
					if !ok {
						return false
					}
					cur.Timestamp, cur.State = now.Unix(), st
					d.Ingesters[id] = cur
					return true
				}
				d.Ingesters[id] = ring.InstanceDesc{Id: id, Addr: id + ":1", Zone: "z" + id, Timestamp: now.Unix(), State: st, Tokens: append([]uint32{}, instPool(idx)[:ntok]...), RegisteredTimestamp: now.Unix()}
				return true
			})
		case "replace":
			// one update that registers an instance and removes others (an instance taking over from
			// another, an operator replacing entries): as many or more names come as go
			idx := rapid.IntRange(0, len(e.instIDs)-1).Draw(rt, "instance")
			id := e.instIDs[idx]
			home := homeOf(idx, n)
			mask := rapid.IntRange(1, 1<<len(e.instIDs)-1).Draw(rt, "removeMask")
			st := rapid.SampledFrom(states).Draw(rt, "state")
			what := fmt.Sprintf("replace on node %d: register %s (state %v) and remove the visible instances of mask %b in one update", home, id, st, mask)
			e.log("%s", what)
			e.casRing(home, what, func(d *ring.Desc, now time.Time) bool {
				removed := 0
				for j, other := range e.instIDs {
					if _, ok := d.Ingesters[other]; ok && j != idx && mask&(1<<j) != 0 {
						d.RemoveIngester(other)
						removed++
					}
				}
				if removed == 0 {
					return false
				}
				res.Stats["removals_applied"] += removed
				res.Stats["replacements_applied"]++
				d.Ingesters[id] = ring.InstanceDesc{Id: id, Addr: id + ":1", Zone: "z" + id, Timestamp: now.Unix(), State: st, Tokens: append([]uint32{}, instPool(idx)[:2]...), RegisteredTimestamp: now.Unix()}
				return true
			})
		case "unregister":
			// constructed, not filtered: choose among the (node, instance) pairs where the instance is visible
			type cand struct {
				node int
				id   string
			}
			var cands []cand
			for nd := 0; nd < n; nd++ {
				r, _ := c.State(nd)
				for _, id := range e.instIDs {
					if in, ok := r.Ingesters[id]; ok && in.State != ring.LEFT {
						cands = append(cands, cand{nd, id})
					}
				}
			}
			if len(cands) == 0 {
				continue
			}
			pick := cands[rapid.IntRange(0, len(cands)-1).Draw(rt, "removeWhat")]
			id := pick.id
			node = pick.node
			what := fmt.Sprintf("remove instance %s on node %d", id, node)
			e.log("%s", what)
			e.casRing(node, what, func(d *ring.Desc, _ time.Time) bool {
				if _, ok := d.Ingesters[id]; !ok {
					return false
				}
				d.RemoveIngester(id)
				res.Stats["removals_applied"]++
				return true
			})
		case "addPartition", "partitionState", "partitionLock":
			p := e.parts[rapid.IntRange(0, len(e.parts)-1).Draw(rt, "partition")]
			home := homeOf(int(p), n)
			st := rapid.SampledFrom(pstates).Draw(rt, "pstate")
			lock := rapid.Bool().Draw(rt, "lock")
			if kind == "partitionLock" {
				// the lock is its own register (own timestamp), written by an operator on another node than
				// the one whose lifecycler writes the state: the two registers change concurrently
				home = (home + 1) % n
			}
			what := fmt.Sprintf("%s partition %d on node %d (state %v lock %v)", kind, p, home, st, lock)
			e.log("%s", what)
			e.casPRing(home, what, func(d *ring.PartitionRingDesc, now time.Time) bool {
				_, ok := d.Partitions[p]
				switch kind {
				case "addPartition":
					if ok {
						return false
					}
					d.AddPartition(p, ring.PartitionPending, now)
					pd := d.Partitions[p]
					pd.Tokens = pd.Tokens[:4] // keep messages small
					d.Partitions[p] = pd
					return true
				case "partitionState":
					if !ok {
						return false
					}
					changed, err := d.UpdatePartitionState(p, st, now)
					return changed && err == nil
				default:
					if !ok {
						return false
					}
					return d.UpdatePartitionStateChangeLock(p, lock, now)
				}
			})
		case "removePartition":
			p := e.parts[rapid.IntRange(0, len(e.parts)-1).Draw(rt, "partition")]
			what := fmt.Sprintf("remove partition %d on node %d", p, node)
			e.log("%s", what)
			e.casPRing(node, what, func(d *ring.PartitionRingDesc, _ time.Time) bool {
				if !d.HasPartition(p) {
					return false
				}
				d.RemovePartition(p)
				res.Stats["removals_applied"]++
				return true
			})
		case "addOwner":
			oi := rapid.IntRange(0, len(e.owners)-1).Draw(rt, "owner")
			home := homeOf(oi+1, n)
			p := e.parts[rapid.IntRange(0, len(e.parts)-1).Draw(rt, "ownedPartition")]
			what := fmt.Sprintf("register owner %s of partition %d on its home node %d", e.owners[oi], p, home)
			e.log("%s", what)
			e.casPRing(home, what, func(d *ring.PartitionRingDesc, now time.Time) bool {
				return d.AddOrUpdateOwner(e.owners[oi], ring.OwnerActive, p, now)
			})
		case "removeOwner":
			oi := rapid.IntRange(0, len(e.owners)-1).Draw(rt, "owner")
			what := fmt.Sprintf("remove owner %s on node %d", e.owners[oi], node)
			e.log("%s", what)
			e.casPRing(node, what, func(d *ring.PartitionRingDesc, _ time.Time) bool {
				if d.RemoveOwner(e.owners[oi]) {
					res.Stats["removals_applied"]++
					return true
				}
				return false
			})
		case "gossip", "gossipLimited":
			limit := math.MaxInt32
			if kind == "gossipLimited" {
				limit = rapid.IntRange(20, 400).Draw(rt, "byteLimit")
			}
			ms := c.GossipRound(node, limit)
			e.log("gossip round of node %d (limit %d): %d messages", node, limit, len(ms))
		case "deliver", "deliverOld":
			if len(c.Pool) == 0 {
				continue
			}
			var w *Wire
			if kind == "deliverOld" {
				// an old message: among the first half of the pool
				w = c.Pool[rapid.IntRange(0, (len(c.Pool)-1)/2).Draw(rt, "oldMsg")]
			} else {
				w = c.Pool[rapid.IntRange(0, len(c.Pool)-1).Draw(rt, "msg")]
			}
			var targets []int
			for t := 0; t < n; t++ {
				if t != w.From && !c.Blocked(w.From, t) {
					targets = append(targets, t)
				}
			}
			if len(targets) == 0 {
				continue
			}
			e.deliver(w, targets[rapid.IntRange(0, len(targets)-1).Draw(rt, "target")])
		case "burst":
			// several messages for one key reach a node back to back while its worker is still busy with the
			// first: every one of them is merged, whatever the others say about the same entries
			to := node
			var cands []*Wire
			for _, w := range c.Pool {
				if w.From != to && !c.Blocked(w.From, to) && ((w.Key == RingKey && w.Ring != nil) || (w.Key == PRingKey && w.PRing != nil)) {
					cands = append(cands, w)
				}
			}
			if len(cands) < 2 || e.tainted {
				continue
			}
			first := cands[rapid.IntRange(0, len(cands)-1).Draw(rt, "burstFirst")]
			ws := []*Wire{first}
			var same []*Wire
			for _, w := range cands {
				if w.Key == first.Key && w != first {
					same = append(same, w)
				}
			}
			if len(same) == 0 {
				continue
			}
			for k := rapid.IntRange(1, 3).Draw(rt, "burstMore"); k > 0; k-- {
				ws = append(ws, same[rapid.IntRange(0, len(same)-1).Draw(rt, "burstMsg")])
			}
			e.burst(ws, to)
		case "hazard":
			// constructed: a message carrying an entry alive, delivered to a node that holds the tombstone
			type hz struct {
				w  *Wire
				to int
			}
			var cands []hz
			for t := 0; t < n; t++ {
				r, p := c.State(t)
				tomb := tombstonesOf(r, p)
				if len(tomb) == 0 {
					continue
				}
				for _, w := range c.Pool {
					if w.From == t {
						continue
					}
					mr, mp := w.Ring, w.PRing
					if mr == nil {
						mr = ring.NewDesc()
					}
					if mp == nil {
						mp = ring.NewPartitionRingDesc()
					}
					for ent, ts := range liveOf(mr, mp) {
						if tts, ok := tomb[ent]; ok && ts <= tts {
							cands = append(cands, hz{w, t})
							break
						}
					}
				}
			}
			if len(cands) == 0 {
				continue
			}
			pick := cands[rapid.IntRange(0, len(cands)-1).Draw(rt, "hazardPick")]
			e.deliver(pick.w, pick.to)
		case "overdueRemoval":
			// constructed: a removal reaches a node that still holds the entry alive only after the
			// retention has passed (the node was cut off for longer than tombstones are kept)
			type od struct {
				w   *Wire
				to  int
				tts int64
			}
			var cands []od
			for t := 0; t < n; t++ {
				r, p := c.State(t)
				live := liveOf(r, p)
				for _, w := range c.Pool {
					if w.From == t {
						continue
					}
					mr, mp := w.Ring, w.PRing
					if mr == nil {
						mr = ring.NewDesc()
					}
					if mp == nil {
						mp = ring.NewPartitionRingDesc()
					}
					for ent, tts := range tombstonesOf(mr, mp) {
						if ts, ok := live[ent]; ok && ts < tts {
							cands = append(cands, od{w, t, tts})
							break
						}
					}
				}
			}
			if len(cands) == 0 {
				continue
			}
			pick := cands[rapid.IntRange(0, len(cands)-1).Draw(rt, "overduePick")]
			if age := time.Since(time.Unix(pick.tts, 0)); age <= retentionShort+time.Second {
				time.Sleep(retentionShort + 2*time.Second - age)
			}
			res.Stats["overdue_removals_delivered"]++
			e.deliver(pick.w, pick.to)
		case "lockRace":
			// constructed: the lock register of a partition changes on one node while its state register
			// changes on another, and the state change reaches the first node before the lock change has left it
			var cands []int32
			for _, p := range e.parts {
				home := homeOf(int(p), n)
				lockNode := (home + 1) % n
				if lockNode == home {
					continue
				}
				_, hp := c.State(home)
				_, lp := c.State(lockNode)
				hpd, ok1 := hp.Partitions[p]
				lpd, ok2 := lp.Partitions[p]
				if ok1 && ok2 && hpd.State != ring.PartitionDeleted && lpd.State != ring.PartitionDeleted && !hpd.StateChangeLocked {
					cands = append(cands, p)
				}
			}
			if len(cands) == 0 && n >= 2 {
				// build the precondition: a partition known to both nodes
				p := e.parts[rapid.IntRange(0, len(e.parts)-1).Draw(rt, "raceNewPartition")]
				home := homeOf(int(p), n)
				before := len(c.Pool)
				e.casPRing(home, fmt.Sprintf("lock race setup: add partition %d on node %d", p, home), func(d *ring.PartitionRingDesc, now time.Time) bool {
					if pd, ok := d.Partitions[p]; ok {
						return pd.StateChangeLocked && d.UpdatePartitionStateChangeLock(p, false, now)
					}
					d.AddPartition(p, ring.PartitionPending, now)
					pd := d.Partitions[p]
					pd.Tokens = pd.Tokens[:4]
					d.Partitions[p] = pd
					return true
				})
				c.GossipRound(home, math.MaxInt32)
				for _, w := range c.Pool[before:] {
					if w.From == home && w.Key == PRingKey && res.Failure == "" {
						e.deliver(w, (home+1)%n)
					}
				}
				_, hp := c.State(home)
				_, lp := c.State((home + 1) % n)
				if hpd, ok := hp.Partitions[p]; ok && hpd.State != ring.PartitionDeleted && !hpd.StateChangeLocked {
					if lpd, ok := lp.Partitions[p]; ok && lpd.State != ring.PartitionDeleted {
						cands = append(cands, p)
					}
				}
				time.Sleep(time.Second)
			}
			if len(cands) == 0 || res.Failure != "" {
				continue
			}
			p := cands[rapid.IntRange(0, len(cands)-1).Draw(rt, "racePartition")]
			home := homeOf(int(p), n)
			lockNode := (home + 1) % n
			time.Sleep(time.Duration(rapid.SampledFrom([]int{0, 1000, 2000}).Draw(rt, "raceGapMs")) * time.Millisecond)
			what := fmt.Sprintf("lock race: lock partition %d on node %d", p, lockNode)
			e.log("%s", what)
			e.casPRing(lockNode, what, func(d *ring.PartitionRingDesc, now time.Time) bool {
				if _, ok := d.Partitions[p]; !ok {
					return false
				}
				return d.UpdatePartitionStateChangeLock(p, !d.Partitions[p].StateChangeLocked, now)
			})
			time.Sleep(time.Duration(rapid.SampledFrom([]int{0, 1000}).Draw(rt, "raceGap2Ms")) * time.Millisecond)
			before := len(c.Pool)
			what = fmt.Sprintf("lock race: change the state of partition %d on node %d", p, home)
			e.log("%s", what)
			e.casPRing(home, what, func(d *ring.PartitionRingDesc, now time.Time) bool {
				pd, ok := d.Partitions[p]
				if !ok {
					return false
				}
				to := ring.PartitionActive
				if pd.State == ring.PartitionActive {
					to = ring.PartitionInactive
				}
				changed, err := d.UpdatePartitionState(p, to, now)
				return changed && err == nil
			})
			if res.Failure != "" {
				break
			}
			c.GossipRound(home, math.MaxInt32)
			for _, w := range c.Pool[before:] {
				if w.From == home && w.Key == PRingKey && res.Failure == "" {
					e.deliver(w, lockNode)
					res.Stats["lock_races_delivered"]++
				}
			}
		case "drop":
			if len(c.Pool) == 0 {
				continue
			}
			i := rapid.IntRange(0, len(c.Pool)-1).Draw(rt, "dropMsg")
			e.log("drop message #%d", c.Pool[i].ID)
			c.Pool = append(c.Pool[:i:i], c.Pool[i+1:]...)
			res.DroppedOrReordered++
			res.Stats["dropped"]++
		case "corrupt":
			if len(c.Pool) == 0 {
				continue
			}
			w := c.Pool[rapid.IntRange(0, len(c.Pool)-1).Draw(rt, "corruptMsg")]
			data, how := corrupt(rt, w.Data)
			target := rapid.IntRange(0, n-1).Draw(rt, "corruptTarget")
			before := c.Canon(target)
			mal := Malformed(data)
			what := fmt.Sprintf("deliver corrupted copy of message #%d (%s, malformed=%v) to node %d", w.ID, how, mal, target)
			e.log("%s", what)
			bR, bP := c.State(target)
			c.Nodes[target].NotifyMsg(data)
			vx.Wait()
			res.Stats["corrupted_deliveries"]++
			if mal {
				res.Stats["malformed_deliveries"]++
				if after := c.Canon(target); after != before {
					e.failf("%s: the malformed message changed the stored state from %s to %s", what, before, after)
				}
			} else {
				// still a well-formed message (by the harness's reading): it merges like any other
				e.afterMerge(target, what, bR, bP, false)
				// its content is not a fact produced by a writer (it may even give one (entry, timestamp) two
				// contents, which is outside the convergence precondition): only "no crash" is asserted from here
				e.strict, e.tainted = false, true
				res.Stats["wellformed_after_corruption"]++
			}
		case "pushpull":
			peer := rapid.IntRange(0, n-1).Draw(rt, "peer")
			if peer == node || c.Blocked(node, peer) {
				continue
			}
			e.pushPull(node, peer)
			if rapid.Bool().Draw(rt, "bothWays") && res.Failure == "" {
				e.pushPull(peer, node)
			}
		case "partition":
			mask := rapid.IntRange(1, (1<<n)-2).Draw(rt, "groups")
			c.Partition(mask)
			res.PartitionsOrRestart++
			e.log("partition the network: groups mask %b", mask)
		case "heal":
			c.Heal()
			e.log("heal the network")
		case "restart":
			e.log("restart node %d (fresh empty store)", node)
			c.Restart(node)
			e.knownTomb[node] = map[string]int64{}
			e.maxDelivered[node] = 0
			res.PartitionsOrRestart++
			time.Sleep(1100 * time.Millisecond) // a restarted writer never reuses a second it already wrote in
		case "cleanup":
			// the store's periodic cleanup runs now on this node
			e.log("periodic cleanup on node %d", node)
			before := c.Canon(node)
			c.Nodes[node].VerifCleanupObsoleteEntries()
			if e.strict && c.Canon(node) != before {
				e.failf("the periodic cleanup on node %d changed the store although nothing is older than the retention: %s -> %s", node, before, c.Canon(node))
			}
		case "advance":
			d := time.Duration(rapid.SampledFrom([]int{0, 300, 1000, 1000, 2000, 3000}).Draw(rt, "advanceMs")) * time.Millisecond
			time.Sleep(d)
			e.log("advance the clock by %v", d)
		case "advanceSmall":
			time.Sleep(time.Duration(rapid.IntRange(0, 999).Draw(rt, "subSecondMs")) * time.Millisecond)
		case "advanceLong":
			d := time.Duration(rapid.SampledFrom([]int{10, 20, 28, 29, 30, 31, 40, 90}).Draw(rt, "advanceS")) * time.Second
			time.Sleep(d)
			e.log("advance the clock by %v", d)
		case "read":
			vis, err := c.Visible(node)
			if err != nil {
				e.failf("read on node %d: %v", node, err)
				break
			}
			r, p := c.State(node)
			if want := VisibleOf(r, p); vis != want {
				e.failf("read on node %d returned %s, the store without tombstones is %s", node, vis, want)
			}
		case "unwatch":
			// one of several watchers of this node ends (not the one registered last, if there is a choice):
			// the others go on being told about every change
			var live []*Watch
			for _, w := range c.Watches {
				if w.Node == node && w.Epoch == c.Epoch[node] && !w.Ended {
					live = append(live, w)
				}
			}
			if len(live) < 2 {
				continue
			}
			c.EndWatch(live[rapid.IntRange(0, len(live)-2).Draw(rt, "endedWatcher")])
		case "watch":
			var w *Watch
			switch rapid.IntRange(0, 2).Draw(rt, "watchKind") {
			case 0:
				w = c.AddWatch(node, RingKey, false, true)
			case 1:
				w = c.AddWatch(node, PRingKey, false, false)
			default:
				w = c.AddWatch(node, "", true, rapid.Bool().Draw(rt, "watchWithRingCodec"))
			}
			// a callback that takes its time: further changes arrive while it runs
			w.SetSlow(time.Duration(rapid.SampledFrom([]int{0, 0, 700, 2500}).Draw(rt, "callbackMs")) * time.Millisecond)
			if w.Slow() > 0 {
				res.Stats["slow_watchers"]++
			}
			e.log("register a watcher on node %d", node)
		}
		vx.Wait()
		if e.strict && res.Failure == "" && (kind == "advance" || kind == "advanceSmall" || kind == "advanceLong") {
			// retention is a day in this mode: the passing of time alone never changes what a node stores
			for i := 0; i < n; i++ {
				if got := c.Canon(i); got != timeBefore[i] {
					e.failf("node %d changed its store while only the clock advanced (retention %v): %s -> %s", i, 24*time.Hour, timeBefore[i], got)
					break
				}
			}
		}
		if res.Failure == "" && (o.RemovalBias || rapid.Bool().Draw(rt, "sendQueued")) {
			// the node's queued broadcasts go on the wire (the adversary decides if and when they arrive)
			c.GossipRound(node, math.MaxInt32)
		}
		if o.ShortRetention && res.Failure == "" {
			e.checkRetention(retentionShort)
		}
		// watchers never see tombstones
		for _, w := range c.Watches {
			if _, _, tomb := w.Snapshot(); tomb != "" {
				e.failf("a watcher on node %d was called with a value containing a tombstone: %s", w.Node, tomb)
			}
		}
	}
	res.MultiNodeCAS = len(e.casBy[RingKey]) >= 2 || len(e.casBy[PRingKey]) >= 2
	if e.tainted {
		res.Stats["histories_tainted_by_decodable_corruption"]++
	}
	if res.Failure != "" || !o.Flow || e.tainted {
		for k, v := range c.Stats {
			res.Stats[k] += v
		}
		return res
	}
	e.flow()
	for k, v := range c.Stats {
		res.Stats[k] += v
	}
	return res
}

// flow: heal; sweeps of {every node gossips with full fan-out and no loss}; then push/pull sweeps;
// then every node must expose the same value, equal to the join of what survived, and watchers
// must have been called with it.
func (e *engine) flow() {
	c := e.c
	c.Heal()
	e.log("--- flow phase: network healed, loss-free ---")
	// what must survive: the join of the states of all nodes alive now
	wantR, wantP := ring.NewDesc(), ring.NewPartitionRingDesc()
	for i := 0; i < c.N; i++ {
		r, p := c.State(i)
		wantR, wantP = model.JoinDesc(wantR, r), model.JoinPDesc(wantP, p)
	}
	gossipOnly := rapid.Bool().Draw(e.rt, "gossipOnlyFlow")
	// pending pool messages may still arrive: deliver a drawn subset first (they are part of "what was sent")
	for _, w := range c.Pool {
		if rapid.IntRange(0, 3).Draw(e.rt, "lateDelivery") == 0 {
			t := rapid.IntRange(0, c.N-1).Draw(e.rt, "lateTarget")
			if t != w.From {
				e.deliver(w, t)
				if e.res.Failure != "" {
					return
				}
			}
		}
	}
	for i := 0; i < c.N; i++ {
		r, p := c.State(i)
		wantR, wantP = model.JoinDesc(wantR, r), model.JoinPDesc(wantP, p)
	}
	rounds := 0
	for ; rounds < 40; rounds++ {
		sent := 0
		for i := 0; i < c.N; i++ {
			for _, m := range c.GossipRound(i, math.MaxInt32) {
				sent++
				for j := 0; j < c.N; j++ {
					if i != j {
						c.Deliver(m, j)
					}
				}
			}
		}
		if sent == 0 {
			break
		}
	}
	e.res.Stats["flow_gossip_rounds"] += rounds
	if rounds >= 40 {
		e.failf("gossip did not quiesce within 40 loss-free rounds with full fan-out")
		return
	}
	if gossipOnly {
		// rebroadcasts alone reach everybody only for updates that were still queued somewhere; what
		// matters here is that gossip never diverges: every node's state is below the join
		for i := 0; i < c.N; i++ {
			r, p := c.State(i)
			if model.CanonDescN(model.JoinDesc(wantR, r)) != model.CanonDescN(wantR) || model.CanonPDescN(model.JoinPDesc(wantP, p)) != model.CanonPDescN(wantP) {
				e.failf("after loss-free gossip node %d holds content that no node had before: %s", i, c.Canon(i))
				return
			}
		}
	}
	for sweep := 0; sweep < 2; sweep++ {
		for i := 0; i < c.N; i++ {
			for j := 0; j < c.N; j++ {
				if i != j {
					c.PushPull(i, j)
				}
			}
		}
	}
	// drain rebroadcasts caused by the exchanges
	for r := 0; r < 40; r++ {
		sent := 0
		for i := 0; i < c.N; i++ {
			for _, m := range c.GossipRound(i, math.MaxInt32) {
				sent++
				for j := 0; j < c.N; j++ {
					if i != j {
						c.Deliver(m, j)
					}
				}
			}
		}
		if sent == 0 {
			break
		}
	}
	time.Sleep(3 * time.Second) // past any notification interval
	vx.Wait()
	// a prefix watcher queues one notification per change and a slow callback works them off one by one:
	// wait until no watcher has been called for longer than the slowest callback takes
	for round := 0; round < 400; round++ {
		before := 0
		for _, w := range c.Watches {
			_, calls, _ := w.Snapshot()
			before += calls
		}
		time.Sleep(3 * time.Second)
		vx.Wait()
		after := 0
		for _, w := range c.Watches {
			_, calls, _ := w.Snapshot()
			after += calls
		}
		if after == before {
			break
		}
	}
	want := "ring[" + model.CanonDescN(wantR) + "] pring[" + model.CanonPDescN(wantP) + "]"
	var firstVis string
	for i := 0; i < c.N; i++ {
		if got := c.Canon(i); got != want {
			e.failf("no convergence after the network healed: node %d holds %s, the join of what the nodes held is %s", i, got, want)
			return
		}
		vis, err := c.Visible(i)
		if err != nil {
			e.failf("%v", err)
			return
		}
		if i == 0 {
			firstVis = vis
		} else if vis != firstVis {
			e.failf("nodes expose different values after quiescence: node 0 %s, node %d %s", firstVis, i, vis)
			return
		}
		if l, g := c.Nodes[i].VerifQueued(); l+g != 0 {
			e.failf("node %d still has %d queued broadcasts after quiescence", i, l+g)
			return
		}
		c.NoteChange(i)
	}
	// watchers registered before the node's last change were last called with the final value
	finalR := model.StripDesc(wantR)
	finalP := model.StripPDesc(wantP)
	for _, w := range c.Watches {
		if w.Ended || w.Epoch != c.Epoch[w.Node] || c.Changes[w.Node] == w.ChangeAt {
			continue // it was ended, its node was restarted, or nothing changed since it was registered
		}
		last, calls, tomb := w.Snapshot()
		if tomb != "" {
			e.failf("a watcher on node %d was called with a tombstone: %s", w.Node, tomb)
			return
		}
		e.res.Stats["watchers_checked"]++
		check := func(key, want string) {
			got, ok := last[key]
			if !ok {
				if c.VisChanges[w.Node][key] > w.VisAt[key] {
					e.failf("watcher on node %d (key %q prefix=%v, %d calls) was never called for key %s although what readers of that key see changed %d times after it was registered; the final value is %s", w.Node, w.Key, w.Prefix, calls, key, c.VisChanges[w.Node][key]-w.VisAt[key], want)
				}
				return // that key did not change after the registration (other key did)
			}
			if got != want {
				e.failf("watcher on node %d (key %q prefix=%v, %d calls) was last called with %s for key %s, the final value is %s", w.Node, w.Key, w.Prefix, calls, got, key, want)
			}
		}
		if !w.Prefix {
			if w.Key == RingKey {
				check(RingKey, model.CanonDescN(finalR))
			} else {
				check(PRingKey, model.CanonPDescN(finalP))
			}
		} else {
			check(RingKey, model.CanonDescN(finalR))
			check(PRingKey, model.CanonPDescN(finalP))
		}
	}
}
