//go:build verif

// Package gossip is the harness-side network of a cluster of detached gossip KV nodes: the harness
// moves every message and owns the (virtual) clock. It is shared by the C04 and C06 harnesses.
package gossip

import (
	"context"
	"encoding/binary"
	"fmt"
	"math"
	"sort"
	"strings"
	"sync"
	"time"

	"github.com/go-kit/log"

	"github.com/grafana/dskit/flagext"
	"github.com/grafana/dskit/kv/codec"
	"github.com/grafana/dskit/kv/memberlist"
	"github.com/grafana/dskit/ring"
	"github.com/grafana/dskit/services"

	"verifharness/internal/model"
	"verifharness/internal/vx"
)

const (
	RingKey  = "ring"
	PRingKey = "pring"
)

// Wire is one message on the wire: a gossip message (one KV pair) or a full state (push/pull).
type Wire struct {
	ID     int
	From   int
	Data   []byte
	Full   bool
	SentAt time.Time
	Ring   *ring.Desc              // decoded content for RingKey (nil if none)
	PRing  *ring.PartitionRingDesc // decoded content for PRingKey
	Key    string
}

// Watch records what a watcher saw.
type Watch struct {
	Node     int
	Key      string // key or prefix
	Prefix   bool
	mu       sync.Mutex
	Last     map[string]string // key -> canonical last value
	Calls    int
	Tomb     string // set if a tombstone was ever passed to the callback
	cancel   context.CancelFunc
	Epoch    int            // node incarnation it was registered on
	VisAt    map[string]int // per key: the node's visible-change counter at registration
	ChangeAt int            // node change counter at registration
	slow     time.Duration  // how long the callback takes
	Ended    bool           // the harness has ended it (its context was cancelled) before the end of the history
	// scratch for harnesses that poll the watcher
	SeenValue string
	SeenCalls int
}

// Cluster is a set of detached KV nodes plus the message pool.
type Cluster struct {
	JoinExchange bool // the next full-state exchanges are flagged as join exchanges
	N            int
	Cfg          func(*memberlist.KVConfig)
	Nodes        []*memberlist.KV
	RingC        []*memberlist.Client
	PRingC       []*memberlist.Client
	Epoch        []int
	Changes      []int            // per node: number of observed state changes (any key)
	VisChanges   []map[string]int // per node and key: number of observed changes of what readers see
	lastVis      []map[string]string
	Pool         []*Wire
	nextID       int
	Watches      []*Watch
	blocked      map[[2]int]bool
	Stats        map[string]int
	lastCanon    []string
	NotifyIntv   time.Duration
	gateMu       sync.Mutex
	gate         map[int]chan struct{} // per node: while set, the node's key workers wait inside Decode
}

// gatedCodec lets the harness hold a node's key worker inside the decoding of a received value, so that
// further messages for the key pile up behind it (a burst of messages, a worker that lags behind).
type gatedCodec struct {
	codec.Codec
	c    *Cluster
	node int
}

func (g gatedCodec) Decode(b []byte) (interface{}, error) {
	g.c.gateMu.Lock()
	ch := g.c.gate[g.node]
	g.c.gateMu.Unlock()
	if ch != nil {
		<-ch
	}
	return g.Codec.Decode(b)
}

// Burst hands several gossip messages to node `to` back to back: the node's worker is held inside the
// decoding of the first while the others queue up behind it, then let go.
func (c *Cluster) Burst(ws []*Wire, to int) {
	ch := make(chan struct{})
	c.gateMu.Lock()
	c.gate[to] = ch
	c.gateMu.Unlock()
	c.Nodes[to].NotifyMsg(ws[0].Data)
	vx.Wait()
	for _, w := range ws[1:] {
		c.Nodes[to].NotifyMsg(w.Data)
	}
	c.gateMu.Lock()
	delete(c.gate, to)
	c.gateMu.Unlock()
	close(ch)
	vx.Wait()
	c.Stats["deliveries"] += len(ws)
	c.Stats["bursts"]++
}

// NewCluster starts n detached nodes inside the current bubble.
func NewCluster(b *vx.B, n int, cfg func(*memberlist.KVConfig)) *Cluster {
	c := &Cluster{N: n, Cfg: cfg, blocked: map[[2]int]bool{}, Stats: map[string]int{}, gate: map[int]chan struct{}{}}
	c.Nodes = make([]*memberlist.KV, n)
	c.RingC = make([]*memberlist.Client, n)
	c.PRingC = make([]*memberlist.Client, n)
	c.Epoch = make([]int, n)
	c.Changes = make([]int, n)
	c.VisChanges = make([]map[string]int, n)
	c.lastVis = make([]map[string]string, n)
	c.lastCanon = make([]string, n)
	for i := 0; i < n; i++ {
		c.startNode(i)
	}
	b.Cleanup(func() {
		for _, w := range c.Watches {
			w.SetSlow(0)
			w.cancel()
		}
		for _, nd := range c.Nodes {
			if nd != nil {
				nd.StopAsync()
			}
		}
		time.Sleep(4 * time.Second) // past the slowest watcher callback still running
		vx.Wait()
	})
	return c
}

func (c *Cluster) startNode(i int) {
	var cfg memberlist.KVConfig
	flagext.DefaultValues(&cfg)
	cfg.Codecs = []codec.Codec{gatedCodec{ring.GetCodec(), c, i}, gatedCodec{ring.GetPartitionRingCodec(), c, i}}
	cfg.RetransmitMult = 2
	cfg.LeftIngestersTimeout = 24 * time.Hour
	if c.Cfg != nil {
		c.Cfg(&cfg)
	}
	c.NotifyIntv = cfg.NotifyInterval
	kv := memberlist.NewDetachedKV(cfg, log.NewNopLogger(), nil, func() int { return c.N })
	if err := services.StartAndAwaitRunning(context.Background(), kv); err != nil {
		panic(err)
	}
	rc, err := memberlist.NewClient(kv, ring.GetCodec())
	if err != nil {
		panic(err)
	}
	pc, err := memberlist.NewClient(kv, ring.GetPartitionRingCodec())
	if err != nil {
		panic(err)
	}
	c.Nodes[i], c.RingC[i], c.PRingC[i] = kv, rc, pc
}

// Restart replaces node i by a fresh, empty node (its watchers end with the old node).
func (c *Cluster) Restart(i int) {
	_ = services.StopAndAwaitTerminated(context.Background(), c.Nodes[i])
	c.Epoch[i]++
	c.startNode(i)
	c.lastCanon[i] = ""
	c.lastVis[i], c.VisChanges[i] = nil, nil
	c.Stats["restarts"]++
}

// DecodeFull splits a LocalState blob into its pairs; ok=false if the framing is broken.
func DecodeFull(b []byte) (pairs []memberlist.KeyValuePair, ok bool) {
	for len(b) > 0 {
		if len(b) < 4 {
			return pairs, false
		}
		n := binary.BigEndian.Uint32(b)
		b = b[4:]
		if uint64(len(b)) < uint64(n) {
			return pairs, false
		}
		var p memberlist.KeyValuePair
		if err := p.Unmarshal(b[:n]); err != nil {
			return pairs, false
		}
		pairs = append(pairs, p)
		b = b[n:]
	}
	return pairs, true
}

func decodeValue(p memberlist.KeyValuePair) (*ring.Desc, *ring.PartitionRingDesc, bool) {
	switch p.Codec {
	case ring.GetCodec().CodecID():
		v, err := ring.GetCodec().Decode(p.Value)
		if err != nil {
			return nil, nil, false
		}
		return v.(*ring.Desc), nil, true
	case ring.GetPartitionRingCodec().CodecID():
		v, err := ring.GetPartitionRingCodec().Decode(p.Value)
		if err != nil {
			return nil, nil, false
		}
		return nil, v.(*ring.PartitionRingDesc), true
	}
	return nil, nil, false
}

// State returns the decoded full state of node i (tombstones included).
func (c *Cluster) State(i int) (*ring.Desc, *ring.PartitionRingDesc) {
	pairs, ok := DecodeFull(c.Nodes[i].LocalState(false))
	if !ok {
		panic("node produced an undecodable LocalState")
	}
	var r *ring.Desc
	var p *ring.PartitionRingDesc
	for _, kp := range pairs {
		d, pd, ok := decodeValue(kp)
		if !ok {
			panic("node produced an undecodable value in LocalState")
		}
		switch kp.Key {
		case RingKey:
			r = d
		case PRingKey:
			p = pd
		}
	}
	if r == nil {
		r = ring.NewDesc()
	}
	if p == nil {
		p = ring.NewPartitionRingDesc()
	}
	return r, p
}

// Canon renders the full state of node i.
func (c *Cluster) Canon(i int) string {
	r, p := c.State(i)
	return "ring[" + model.CanonDescN(r) + "] pring[" + model.CanonPDescN(p) + "]"
}

// NoteChange bumps the node's change counter if its state differs from the last observation.
func (c *Cluster) NoteChange(i int) bool {
	// what readers of each key see (tombstones stripped)
	r, p := c.State(i)
	vr, vp := model.StripDesc(r), model.StripPDesc(p)
	if c.lastVis[i] == nil {
		c.lastVis[i] = map[string]string{}
		c.VisChanges[i] = map[string]int{}
	}
	for key, cv := range map[string]string{RingKey: model.CanonDescN(vr), PRingKey: model.CanonPDescN(vp)} {
		if old, ok := c.lastVis[i][key]; ok && old != cv {
			c.VisChanges[i][key]++
		}
		c.lastVis[i][key] = cv
	}
	cur := c.Canon(i)
	if cur != c.lastCanon[i] {
		c.lastCanon[i] = cur
		c.Changes[i]++
		return true
	}
	return false
}

// GossipRound moves the node's queued broadcasts (within the byte limit) into the pool.
func (c *Cluster) GossipRound(i int, limit int) []*Wire {
	if limit <= 0 {
		limit = math.MaxInt32
	}
	var out []*Wire
	for _, m := range c.Nodes[i].GetBroadcasts(3, limit) {
		w := &Wire{ID: c.nextID, From: i, Data: append([]byte(nil), m...), SentAt: time.Now()}
		c.nextID++
		var p memberlist.KeyValuePair
		if err := p.Unmarshal(w.Data); err != nil {
			panic(fmt.Sprintf("node %d produced an undecodable broadcast: %v", i, err))
		}
		w.Key = p.Key
		d, pd, ok := decodeValue(p)
		if !ok {
			panic(fmt.Sprintf("node %d produced a broadcast with an undecodable value", i))
		}
		w.Ring, w.PRing = d, pd
		c.Pool = append(c.Pool, w)
		out = append(out, w)
	}
	c.Stats["messages_produced"] += len(out)
	return out
}

// Blocked reports whether the network currently drops traffic between a and b.
func (c *Cluster) Blocked(a, b int) bool { return c.blocked[[2]int{a, b}] || c.blocked[[2]int{b, a}] }

// Partition splits the nodes into two groups by mask; Heal removes every partition.
func (c *Cluster) Partition(mask int) {
	c.blocked = map[[2]int]bool{}
	for a := 0; a < c.N; a++ {
		for b := 0; b < c.N; b++ {
			if a != b && (mask>>a)&1 != (mask>>b)&1 {
				c.blocked[[2]int{a, b}] = true
			}
		}
	}
	c.Stats["partitions"]++
}
func (c *Cluster) Heal() { c.blocked = map[[2]int]bool{} }

// Deliver hands a gossip message to node `to` and waits for its key worker to process it.
func (c *Cluster) Deliver(w *Wire, to int) {
	c.Nodes[to].NotifyMsg(w.Data)
	vx.Wait()
	c.Stats["deliveries"]++
}

// PushPull merges the full state of `from` into `to`.
func (c *Cluster) PushPull(from, to int) {
	// memberlist flags the exchange a node makes when it (re-)joins; the flag must not change what is sent
	join := c.JoinExchange
	c.Nodes[to].MergeRemoteState(c.Nodes[from].LocalState(join), join)
	if join {
		c.Stats["push_pulls_flagged_join"]++
	}
	vx.Wait()
	c.Stats["push_pulls"]++
}

// Visible returns what readers of node i see for both keys (must be tombstone-free).
func (c *Cluster) Visible(i int) (string, error) {
	rv, err := c.RingC[i].Get(context.Background(), RingKey)
	if err != nil {
		return "", err
	}
	pv, err := c.PRingC[i].Get(context.Background(), PRingKey)
	if err != nil {
		return "", err
	}
	rd, _ := rv.(*ring.Desc)
	pd, _ := pv.(*ring.PartitionRingDesc)
	if t := Tombstones(rd, pd); t != "" {
		return "", fmt.Errorf("a reader of node %d sees a tombstone: %s", i, t)
	}
	if rd == nil {
		rd = ring.NewDesc()
	}
	if pd == nil {
		pd = ring.NewPartitionRingDesc()
	}
	return "ring[" + model.CanonDescN(rd) + "] pring[" + model.CanonPDescN(pd) + "]", nil
}

// VisibleOf renders a full state the way a reader must see it (tombstones stripped).
func VisibleOf(r *ring.Desc, p *ring.PartitionRingDesc) string {
	// what readers may see = the stored value without its removal markers, and nothing else missing;
	// stripped here by hand (asking the library's RemoveTombstones would compare the code with itself)
	r2 := model.CloneDesc(r)
	for id, in := range r2.Ingesters {
		if in.State == ring.LEFT {
			delete(r2.Ingesters, id)
		}
	}
	p2 := model.ClonePDesc(p)
	for id, pd := range p2.Partitions {
		if pd.State == ring.PartitionDeleted {
			delete(p2.Partitions, id)
		}
	}
	for id, o := range p2.Owners {
		if o.State == ring.OwnerDeleted {
			delete(p2.Owners, id)
		}
	}
	return "ring[" + model.CanonDescN(r2) + "] pring[" + model.CanonPDescN(p2) + "]"
}

// Tombstones lists the tombstones contained in the values ("" if none).
func Tombstones(r *ring.Desc, p *ring.PartitionRingDesc) string {
	var out []string
	if r != nil {
		for id, in := range r.Ingesters {
			if in.State == ring.LEFT {
				out = append(out, "instance "+id)
			}
		}
	}
	if p != nil {
		for id, pd := range p.Partitions {
			if pd.State == ring.PartitionDeleted {
				out = append(out, fmt.Sprintf("partition %d", id))
			}
		}
		for id, o := range p.Owners {
			if o.State == ring.OwnerDeleted {
				out = append(out, "owner "+id)
			}
		}
	}
	sort.Strings(out)
	return strings.Join(out, ", ")
}

// AddWatch registers a key or prefix watcher on node i.
func (c *Cluster) AddWatch(i int, key string, prefix bool, useRingClient bool) *Watch {
	ctx, cancel := context.WithCancel(context.Background())
	c.NoteChange(i)
	w := &Watch{Node: i, Key: key, Prefix: prefix, Last: map[string]string{}, cancel: cancel, Epoch: c.Epoch[i], ChangeAt: c.Changes[i], VisAt: map[string]int{}}
	for k, v := range c.VisChanges[i] {
		w.VisAt[k] = v
	}
	cl := c.RingC[i]
	if !useRingClient {
		cl = c.PRingC[i]
	}
	rec := func(k string, v interface{}) bool {
		defer func() {
			if d := w.Slow(); d > 0 {
				time.Sleep(d)
			}
		}()
		w.mu.Lock()
		defer w.mu.Unlock()
		w.Calls++
		rd, _ := v.(*ring.Desc)
		pd, _ := v.(*ring.PartitionRingDesc)
		if t := Tombstones(rd, pd); t != "" {
			w.Tomb = t
		}
		switch {
		case rd != nil:
			w.Last[k] = model.CanonDescN(rd)
		case pd != nil:
			w.Last[k] = model.CanonPDescN(pd)
		default:
			w.Last[k] = "<nil>"
		}
		return true
	}
	if prefix {
		go cl.WatchPrefix(ctx, key, func(k string, v interface{}) bool { return rec(k, v) })
	} else {
		go cl.WatchKey(ctx, key, func(v interface{}) bool { return rec(key, v) })
	}
	vx.Wait()
	c.Watches = append(c.Watches, w)
	return w
}

// EndWatch ends a watcher before the end of the history (its caller's context is done).
func (c *Cluster) EndWatch(w *Watch) {
	w.cancel()
	vx.Wait()
	w.Ended = true
	c.Stats["watchers_ended_early"]++
}

// SetSlow makes every further callback of the watcher take d.
func (w *Watch) SetSlow(d time.Duration) { w.mu.Lock(); w.slow = d; w.mu.Unlock() }

// Slow returns the callback duration.
func (w *Watch) Slow() time.Duration { w.mu.Lock(); defer w.mu.Unlock(); return w.slow }

// Snapshot returns what the watcher saw last.
func (w *Watch) Snapshot() (last map[string]string, calls int, tomb string) {
	w.mu.Lock()
	defer w.mu.Unlock()
	out := map[string]string{}
	for k, v := range w.Last {
		out[k] = v
	}
	return out, w.Calls, w.Tomb
}
