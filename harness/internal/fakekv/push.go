// Package fakekv holds harness-side kv.Client implementations.
package fakekv

import (
	"context"

	"github.com/go-kit/log"

	"github.com/grafana/dskit/ring"
	"github.com/grafana/dskit/services"
)

// Push is a kv.Client for ring clients: Get returns the initial value, WatchKey hands every pushed
// value to the callback and acknowledges after the callback returned, so that Ring.updateRingState
// has run to completion when PushRing.Push returns.
type Push struct {
	initial interface{}
	ch      chan interface{}
	ack     chan struct{}
}

func NewPush(initial interface{}) *Push {
	return &Push{initial: initial, ch: make(chan interface{}), ack: make(chan struct{})}
}

func (p *Push) List(context.Context, string) ([]string, error) { return nil, nil }
func (p *Push) Get(context.Context, string) (interface{}, error) {
	if p.initial == nil {
		return nil, nil
	}
	return p.initial, nil
}
func (p *Push) Delete(context.Context, string) error { return nil }
func (p *Push) CAS(context.Context, string, func(interface{}) (interface{}, bool, error)) error {
	return nil
}
func (p *Push) WatchKey(ctx context.Context, _ string, f func(interface{}) bool) {
	for {
		select {
		case d := <-p.ch:
			f(d)
			p.ack <- struct{}{}
		case <-ctx.Done():
			return
		}
	}
}
func (p *Push) WatchPrefix(context.Context, string, func(string, interface{}) bool) {}

// Send delivers v to the watcher and waits until its callback returned.
func (p *Push) Send(v interface{}) { p.ch <- v; <-p.ack }

// PushRing is a running ring client fed by a Push store.
type PushRing struct {
	*ring.Ring
	St *Push
}

// NewRing builds and starts a ring client whose content is d (d may be nil = empty ring).
func NewRing(cfg ring.Config, d *ring.Desc) *PushRing {
	var init interface{}
	if d != nil {
		init = d
	}
	st := NewPush(init)
	r, err := ring.NewWithStoreClientAndStrategy(cfg, "t", "k", st, ring.NewDefaultReplicationStrategy(), nil, log.NewNopLogger())
	if err != nil {
		panic(err)
	}
	if err := services.StartAndAwaitRunning(context.Background(), r); err != nil {
		panic(err)
	}
	return &PushRing{Ring: r, St: st}
}

func (t *PushRing) Push(d *ring.Desc) { t.St.Send(d) }
func (t *PushRing) Stop()             { _ = services.StopAndAwaitTerminated(context.Background(), t.Ring) }
