package fakekv

import (
	"context"
	"sync"
	"time"

	"github.com/grafana/dskit/kv"
)

// Rec is one committed CAS as seen by the recording store.
type Rec struct {
	Writer   string
	At       time.Time
	In, Out  interface{} // deep copies; In is nil when the key did not exist
	Explicit bool        // the harness marked the write as caused by an explicit API call
	Seq      int
}

// Log is shared by all Recorders of one run.
type Log struct {
	mu   sync.Mutex
	Recs []Rec
}

func (l *Log) add(r Rec) {
	l.mu.Lock()
	r.Seq = len(l.Recs)
	l.Recs = append(l.Recs, r)
	l.mu.Unlock()
}

// Snapshot returns a copy of the records so far.
func (l *Log) Snapshot() []Rec {
	l.mu.Lock()
	defer l.mu.Unlock()
	return append([]Rec(nil), l.Recs...)
}

// Recorder wraps a kv.Client and records every committed CAS of one writer.
type Recorder struct {
	kv.Client
	Writer   string
	Log      *Log
	Clone    func(interface{}) interface{}
	mu       sync.Mutex
	explicit bool
	// Interpose, if set, makes the next CAS lose a race: the function is first evaluated against the
	// current value and its result discarded (as a store does when the conditional write fails), then
	// Interpose runs (the competing writer), then the CAS proper takes place. One-shot.
	Interpose func()
	// Delay, if positive, is how long the store takes to serve a CAS of this writer (slept before the CAS
	// proper); OnServe, if set, runs when the delay is over, immediately before the CAS proper.
	Delay   time.Duration
	OnServe func()
	// Before, if set, runs immediately before every CAS proper of this writer until it returns true: the
	// store content may change between whatever the writer read earlier and its write (the function of a
	// CAS must decide on the value it is handed, not on an earlier read).
	Before func() bool
}

// SetBefore sets Before.
func (r *Recorder) SetBefore(f func() bool) { r.mu.Lock(); r.Before = f; r.mu.Unlock() }

// SetDelay sets Delay and OnServe.
func (r *Recorder) SetDelay(d time.Duration, onServe func()) {
	r.mu.Lock()
	r.Delay, r.OnServe = d, onServe
	r.mu.Unlock()
}

// SetExplicit marks the writes performed until the next SetExplicit(false) as explicit.
func (r *Recorder) SetExplicit(v bool) { r.mu.Lock(); r.explicit = v; r.mu.Unlock() }

func (r *Recorder) CAS(ctx context.Context, key string, f func(interface{}) (interface{}, bool, error)) error {
	r.mu.Lock()
	ip := r.Interpose
	r.Interpose = nil
	delay, onServe := r.Delay, r.OnServe
	before := r.Before
	r.mu.Unlock()
	if delay > 0 {
		time.Sleep(delay)
	}
	if onServe != nil {
		onServe()
	}
	if ip != nil {
		cur, err := r.Client.Get(ctx, key)
		if err == nil {
			var v interface{}
			if cur != nil {
				v = r.Clone(cur)
			}
			if _, retry, ferr := f(v); ferr != nil && !retry {
				return ferr
			}
		}
		ip()
	}
	if before != nil && before() {
		r.mu.Lock()
		r.Before = nil
		r.mu.Unlock()
	}
	var in, out interface{}
	err := r.Client.CAS(ctx, key, func(v interface{}) (interface{}, bool, error) {
		in = nil
		if v != nil {
			in = r.Clone(v)
		}
		o, retry, err := f(v)
		out = nil
		if err == nil && o != nil {
			out = r.Clone(o)
		}
		return o, retry, err
	})
	if err == nil && out != nil {
		r.mu.Lock()
		ex := r.explicit
		r.mu.Unlock()
		r.Log.add(Rec{Writer: r.Writer, At: time.Now(), In: in, Out: out, Explicit: ex})
	}
	return err
}
