package fakekv

import (
	"context"
	"errors"
	"sync"

	"github.com/grafana/dskit/kv"
)

// Faulty wraps a kv.Client of one process. It can
//   - "kill the process" inside its k-th store write, before or after the commit: the caller is
//     parked forever (until Release), and so is every later call of that process;
//   - fail every call whose index falls into [FailFrom, FailTo).
type Faulty struct {
	kv.Client

	CrashAt int  // 1-based index of the write in which the process dies (0 = never)
	After   bool // die after the commit instead of before it

	FailFrom, FailTo int // window of failing calls (CAS and Get), 1-based, half-open; 0,0 = none

	// window of writes (CAS calls, counted on their own, 1-based, half-open) that the store refuses AFTER
	// the caller's function has been evaluated: what a store does when the conditional write fails for
	// good (the value moved, the connection broke between the read and the write)
	RefuseFrom, RefuseTo int
	casCalls             int
	Refused              int

	mu      sync.Mutex
	writes  int
	calls   int
	crashed bool
	release chan struct{}
}

func NewFaulty(c kv.Client) *Faulty { return &Faulty{Client: c, release: make(chan struct{})} }

var errDead = errors.New("process is dead")
var ErrInjected = errors.New("injected store failure")

// Writes returns the number of attempted commits so far; Crashed whether the process was killed.
func (f *Faulty) Writes() int   { f.mu.Lock(); defer f.mu.Unlock(); return f.writes }
func (f *Faulty) Calls() int    { f.mu.Lock(); defer f.mu.Unlock(); return f.calls }
func (f *Faulty) Crashed() bool { f.mu.Lock(); defer f.mu.Unlock(); return f.crashed }

// Release lets the parked goroutines of the dead process go (they all get an error).
func (f *Faulty) Release() {
	f.mu.Lock()
	defer f.mu.Unlock()
	select {
	case <-f.release:
	default:
		close(f.release)
	}
}

func (f *Faulty) enter() (dead, failing bool) {
	f.mu.Lock()
	defer f.mu.Unlock()
	if f.crashed {
		return true, false
	}
	f.calls++
	if f.FailFrom > 0 && f.calls >= f.FailFrom && f.calls < f.FailTo {
		return false, true
	}
	return false, false
}

func (f *Faulty) CAS(ctx context.Context, key string, fn func(interface{}) (interface{}, bool, error)) error {
	dead, failing := f.enter()
	if dead {
		<-f.release
		return errDead
	}
	if failing {
		return ErrInjected
	}
	f.mu.Lock()
	f.casCalls++
	refuse := f.RefuseFrom > 0 && f.casCalls >= f.RefuseFrom && f.casCalls < f.RefuseTo
	f.mu.Unlock()
	hitAfter, hitBefore := false, false
	err := f.Client.CAS(ctx, key, func(in interface{}) (interface{}, bool, error) {
		out, retry, err := fn(in)
		if refuse {
			f.mu.Lock()
			f.Refused++
			f.mu.Unlock()
			return nil, false, ErrInjected
		}
		if err == nil && out != nil {
			f.mu.Lock()
			f.writes++
			hit := f.CrashAt > 0 && f.writes == f.CrashAt
			f.mu.Unlock()
			if hit && !f.After {
				hitBefore = true
				return nil, false, errors.New("crash before commit")
			}
			if hit {
				hitAfter = true
			}
		}
		return out, retry, err
	})
	if hitBefore || (hitAfter && err == nil) {
		f.mu.Lock()
		f.crashed = true
		f.mu.Unlock()
		<-f.release // the process never observes the outcome
		return errDead
	}
	return err
}

func (f *Faulty) Get(ctx context.Context, key string) (interface{}, error) {
	dead, failing := f.enter()
	if dead {
		<-f.release
		return nil, errDead
	}
	if failing {
		return nil, ErrInjected
	}
	return f.Client.Get(ctx, key)
}
