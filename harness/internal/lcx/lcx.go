// Package lcx builds instance lifecyclers (both kinds) on harness-supplied stores.
package lcx

import (
	"fmt"
	"sort"
	"time"

	"github.com/go-kit/log"

	"github.com/grafana/dskit/kv"
	"github.com/grafana/dskit/ring"
	"github.com/grafana/dskit/services"
)

const RingKey = "ringkey"

// Cfg is the generated configuration of one lifecycler.
type Cfg struct {
	ID         string             `json:"id"`
	Basic      bool               `json:"basic"`
	NumTokens  int                `json:"num_tokens"`
	JoinAfter  time.Duration      `json:"join_after"`
	Observe    time.Duration      `json:"observe"`
	HBPeriod   time.Duration      `json:"heartbeat_period"`
	Unregister bool               `json:"unregister"`
	RingHealth bool               `json:"readiness_ring_health"`
	TokensPath string             `json:"tokens_path"`
	GenSeed    uint32             `json:"gen_seed"`
	GenSpace   uint32             `json:"gen_space"`      // 0: seeded random generator; n: harness generator over [0,n)
	RegState   ring.InstanceState `json:"register_state"` // basic: state returned by the register delegate
	AutoForget time.Duration      `json:"auto_forget"`    // basic: forget period (0 = no auto-forget delegate)
	MinReady   time.Duration      `json:"min_ready"`
	FinalSleep time.Duration      `json:"final_sleep"` // full: time spent LEAVING (heartbeating) before the shutdown completes
}

func (c Cfg) String() string {
	kind := "full"
	if c.Basic {
		kind = "basic"
	}
	return fmt.Sprintf("{%s %s tokens=%d joinAfter=%v observe=%v hb=%v unregister=%v ringHealth=%v file=%v gen=%d/%d reg=%v forget=%v}", c.ID, kind, c.NumTokens, c.JoinAfter, c.Observe, c.HBPeriod, c.Unregister, c.RingHealth, c.TokensPath != "", c.GenSeed, c.GenSpace, c.RegState, c.AutoForget)
}

// SmallGen is a token generator over a small space that honours `taken`: a caller that passes a
// wrong taken list collides quickly.
type SmallGen struct {
	Seed, Space uint32
	calls       int
}

func (g *SmallGen) GenerateTokens(n int, taken []uint32) ring.Tokens {
	used := map[uint32]bool{}
	for _, t := range taken {
		used[t] = true
	}
	var out ring.Tokens
	g.calls++
	c := (g.Seed + uint32(g.calls)*13) % g.Space
	for tries := uint32(0); len(out) < n && tries < 4*g.Space; tries++ {
		if !used[c] {
			used[c] = true
			out = append(out, c)
		}
		c = (c*7 + 3) % g.Space
	}
	for c := uint32(0); len(out) < n && c < g.Space; c++ {
		if !used[c] {
			used[c] = true
			out = append(out, c)
		}
	}
	sort.Sort(out)
	return out
}
func (g *SmallGen) CanJoin(map[string]ring.InstanceDesc) error { return nil }
func (g *SmallGen) CanJoinEnabled() bool                       { return false }

// LC is a built lifecycler of either kind.
type LC struct {
	Cfg   Cfg
	Svc   services.Service
	Full  *ring.Lifecycler
	Basic *ring.BasicLifecycler
}

func (l *LC) State() ring.InstanceState {
	if l.Full != nil {
		return l.Full.GetState()
	}
	return l.Basic.GetState()
}

func gen(c Cfg) ring.TokenGenerator {
	if c.GenSpace > 0 {
		return &SmallGen{Seed: c.GenSeed, Space: c.GenSpace}
	}
	return ring.NewRandomTokenGeneratorWithSeed(int64(c.GenSeed) + 1)
}

// New builds (does not start) a lifecycler writing through store.
func New(c Cfg, store kv.Client) (*LC, error) {
	if c.Basic {
		bcfg := ring.BasicLifecyclerConfig{ID: c.ID, Addr: c.ID + ":1", Zone: "z", HeartbeatPeriod: c.HBPeriod, HeartbeatTimeout: time.Minute,
			TokensObservePeriod: c.Observe, NumTokens: c.NumTokens, KeepInstanceInTheRingOnShutdown: !c.Unregister, RingTokenGenerator: gen(c)}
		var d ring.BasicLifecyclerDelegate = ring.NewInstanceRegisterDelegate(c.RegState, c.NumTokens)
		d = ring.NewLeaveOnStoppingDelegate(d, log.NewNopLogger())
		if c.AutoForget > 0 {
			d = ring.NewAutoForgetDelegate(c.AutoForget, d, log.NewNopLogger())
		}
		if c.TokensPath != "" {
			d = ring.NewTokensPersistencyDelegate(c.TokensPath, ring.ACTIVE, d, log.NewNopLogger())
		}
		b, err := ring.NewBasicLifecycler(bcfg, "r", RingKey, store, d, log.NewNopLogger(), nil)
		if err != nil {
			return nil, err
		}
		return &LC{Cfg: c, Svc: b, Basic: b}, nil
	}
	var lc ring.LifecyclerConfig
	lc.RingConfig.KVStore = kv.Config{Mock: store}
	lc.RingConfig.HeartbeatTimeout = time.Minute
	lc.RingConfig.ReplicationFactor = 1
	lc.NumTokens, lc.HeartbeatPeriod, lc.HeartbeatTimeout = c.NumTokens, c.HBPeriod, time.Minute
	lc.JoinAfter, lc.ObservePeriod = c.JoinAfter, c.Observe
	lc.Addr, lc.Port, lc.ID, lc.Zone = "10.0.0.1", 1000, c.ID, "z"
	lc.UnregisterOnShutdown = c.Unregister
	lc.ReadinessCheckRingHealth = c.RingHealth
	lc.MinReadyDuration = c.MinReady
	lc.TokensFilePath = c.TokensPath
	lc.FinalSleep = c.FinalSleep
	lc.RingTokenGenerator = gen(c)
	l, err := ring.NewLifecycler(lc, nil, "r", RingKey, false, log.NewNopLogger(), nil)
	if err != nil {
		return nil, err
	}
	return &LC{Cfg: c, Svc: l, Full: l}, nil
}

// CloneDesc deep-copies a ring descriptor stored in a kv value.
func CloneDesc(v interface{}) interface{} {
	d, _ := v.(*ring.Desc)
	out := ring.NewDesc()
	if d == nil {
		return out
	}
	for k, i := range d.Ingesters {
		i.Tokens = append([]uint32(nil), i.Tokens...)
		out.Ingesters[k] = i
	}
	return out
}
