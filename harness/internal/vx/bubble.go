package vx

import (
	"fmt"
	"hash/fnv"
	"os"
	"runtime"
	"strings"
	"testing"
	"testing/synctest"
)

// B is the handle a bubble body gets: LIFO cleanups that run inside the bubble, also on failure.
type B struct {
	cleanups []func()
}

// Cleanup registers fn to run inside the bubble when the body ends (normally or by panic).
func (b *B) Cleanup(fn func()) { b.cleanups = append(b.cleanups, fn) }

func (b *B) runCleanups() {
	for i := len(b.cleanups) - 1; i >= 0; i-- {
		func() {
			defer func() { _ = recover() }()
			b.cleanups[i]()
		}()
	}
	b.cleanups = nil
}

// Bubble runs fn inside a synctest bubble (virtual clock, Wait = quiescence). A panic inside the
// bubble (rapid's failure panic included) is carried out and re-raised in the caller's goroutine.
// rapid's shrinker compares failures by traceback, so the re-raise goes through one of several
// distinct call sites chosen by a hash of the original panic site; rapid-internal "invalid data"
// panics get a site of their own. Cleanups registered on B run inside the bubble even on failure, so
// that the bubble does not end in synctest's "blocked goroutines remain" panic masking the cause.
func Bubble(t *testing.T, fn func(b *B)) {
	var p any
	var site uint32
	var stack string
	func() {
		defer func() {
			// synctest itself panics (deadlock: blocked goroutines remain); prefer the original.
			if q := recover(); q != nil && p == nil {
				p = q
				site = 7
				if os.Getenv("VERIF_DEBUG") != "" {
					buf := make([]byte, 1<<18)
					fmt.Fprintf(os.Stderr, "synctest panic %v; all goroutines:\n%s\n", q, buf[:runtime.Stack(buf, true)])
				}
			}
		}()
		synctest.Test(t, func(_ *testing.T) {
			b := &B{}
			defer func() {
				p = recover()
				if p != nil {
					pcs := make([]uintptr, 16)
					n := runtime.Callers(3, pcs)
					h := fnv.New32a()
					for _, pc := range pcs[:n] {
						fmt.Fprint(h, pc)
					}
					site = h.Sum32()
					if !isRapidInternal(p) {
						buf := make([]byte, 1<<14)
						stack = string(buf[:runtime.Stack(buf, false)])
					}
				}
				b.runCleanups()
				synctest.Wait()
			}()
			fn(b)
		})
	}()
	if p == nil {
		return
	}
	if isRapidInternal(p) {
		panic(p)
	}
	if stack != "" && !isRapidFail(p) {
		// a panic of the code under test: keep where it happened
		p = fmt.Sprintf("panic inside bubble: %v\n%s", p, trimStack(stack))
	}
	raise(p, site)
}

func isRapidInternal(p any) bool { return fmt.Sprintf("%T", p) == "rapid.invalidData" }
func isRapidFail(p any) bool {
	s := fmt.Sprintf("%T", p)
	return strings.HasPrefix(s, "rapid.")
}

func trimStack(s string) string {
	lines := strings.Split(s, "\n")
	if len(lines) > 40 {
		lines = lines[:40]
	}
	return strings.Join(lines, "\n")
}

//go:noinline
func raise(p any, site uint32) {
	switch site % 8 {
	case 0:
		panic(p)
	case 1:
		panic(p)
	case 2:
		panic(p)
	case 3:
		panic(p)
	case 4:
		panic(p)
	case 5:
		panic(p)
	case 6:
		panic(p)
	default:
		panic(p)
	}
}

// Wait is synctest.Wait (quiescence of the bubble).
func Wait() { synctest.Wait() }
