// Package vx holds the plumbing shared by every property harness: evidence recording, tier and
// shard selection, replay-file writing and the synctest bubble helper.
package vx

import (
	"encoding/binary"
	"encoding/json"
	"fmt"
	"hash/fnv"
	"os"
	"path/filepath"
	"sort"
	"strconv"
	"strings"
	"sync"
	"testing"
)

// ---------------------------------------------------------------------------------------------
// tier / shard / seed

// Thorough reports whether the driver asked for the thorough tier.
func Thorough() bool { return os.Getenv("VERIF_TIER") == "thorough" }

// Pick returns q in the quick tier and th in the thorough tier.
func Pick(q, th int) int {
	if Thorough() {
		return th
	}
	return q
}

// Shard returns (index, count) of this process among the driver's shards (0,1 if unsharded).
func Shard() (int, int) {
	s := os.Getenv("VERIF_SHARD")
	if s == "" {
		return 0, 1
	}
	parts := strings.Split(s, "/")
	if len(parts) != 2 {
		return 0, 1
	}
	i, _ := strconv.Atoi(parts[0])
	n, _ := strconv.Atoi(parts[1])
	if n <= 0 {
		return 0, 1
	}
	return i, n
}

// Mine reports whether enumeration index i belongs to this shard.
func Mine(i int) bool {
	idx, n := Shard()
	return i%n == idx
}

// Seed returns the driver's derived seed (never 0).
func Seed() uint64 {
	s, err := strconv.ParseUint(os.Getenv("VERIF_DERIVED_SEED"), 10, 64)
	if err != nil || s == 0 {
		return 1
	}
	return s
}

// ---------------------------------------------------------------------------------------------
// evidence

type recorder struct {
	mu         sync.Mutex
	evals      int64
	classes    map[string]int64
	fps        map[uint64]struct{}
	samples    map[string][]any
	notes      []string
	known      map[string]string
	exhaustive map[string]bool
	assume     map[string]struct{}
	rule       string
}

var rec = &recorder{
	classes:    map[string]int64{},
	fps:        map[uint64]struct{}{},
	samples:    map[string][]any{},
	known:      map[string]string{},
	exhaustive: map[string]bool{},
	assume:     map[string]struct{}{},
}

const maxSamplesPerKind = 3
const maxFingerprints = 4_000_000

// Eval counts n executed cases.
func Eval(n int) {
	rec.mu.Lock()
	rec.evals += int64(n)
	rec.mu.Unlock()
}

// Class adds n to the class histogram.
func Class(name string, n int) {
	rec.mu.Lock()
	rec.classes[name] += int64(n)
	rec.mu.Unlock()
}

// NonTrivial records the fingerprint of a case that is non-trivial by the property's rule.
func NonTrivial(fp uint64) {
	rec.mu.Lock()
	if len(rec.fps) < maxFingerprints {
		rec.fps[fp] = struct{}{}
	}
	rec.classes["nontrivial_observations"]++
	rec.mu.Unlock()
}

// FP hashes the rendered parts into a fingerprint.
func FP(parts ...any) uint64 {
	h := fnv.New64a()
	for _, p := range parts {
		fmt.Fprintf(h, "%v|", p)
	}
	return h.Sum64()
}

// Sample keeps up to three rendered cases per kind.
func Sample(kind string, v any) {
	rec.mu.Lock()
	if len(rec.samples[kind]) < maxSamplesPerKind {
		rec.samples[kind] = append(rec.samples[kind], v)
	}
	rec.mu.Unlock()
}

// WantSample reports whether another sample of this kind would be kept (to avoid rendering cost).
func WantSample(kind string) bool {
	rec.mu.Lock()
	defer rec.mu.Unlock()
	return len(rec.samples[kind]) < maxSamplesPerKind
}

// Rule sets the non-triviality rule text of the evidence.
func Rule(s string) { rec.mu.Lock(); rec.rule = s; rec.mu.Unlock() }

// Assume records an assumption / trusted-base line.
func Assume(s string) { rec.mu.Lock(); rec.assume[s] = struct{}{}; rec.mu.Unlock() }

// Note records a free-text note.
func Note(format string, a ...any) {
	rec.mu.Lock()
	rec.notes = append(rec.notes, fmt.Sprintf(format, a...))
	rec.mu.Unlock()
}

// Exhaustive marks a finite universe as completely enumerated by this run.
func Exhaustive(universe string) { rec.mu.Lock(); rec.exhaustive[universe] = true; rec.mu.Unlock() }

// KnownFinding reports that a finding listed in known_findings.json was reproduced by this run.
func KnownFinding(id, what string) { rec.mu.Lock(); rec.known[id] = what; rec.mu.Unlock() }

type partial struct {
	Evaluations int64             `json:"evaluations"`
	Classes     map[string]int64  `json:"classes"`
	Samples     map[string][]any  `json:"samples"`
	Notes       []string          `json:"notes"`
	Known       map[string]string `json:"known"`
	Exhaustive  []string          `json:"exhaustive"`
	Assume      []string          `json:"assumptions"`
	Rule        string            `json:"rule"`
	FPFile      string            `json:"fp_file"`
	NFP         int               `json:"n_fp"`
}

// Flush writes the partial evidence of this process to $VERIF_PARTIAL (+ ".fp" for fingerprints).
func Flush() {
	out := os.Getenv("VERIF_PARTIAL")
	if out == "" {
		return
	}
	rec.mu.Lock()
	defer rec.mu.Unlock()
	p := partial{Evaluations: rec.evals, Classes: rec.classes, Samples: rec.samples, Notes: rec.notes,
		Known: rec.known, Rule: rec.rule, FPFile: out + ".fp", NFP: len(rec.fps)}
	for k := range rec.exhaustive {
		p.Exhaustive = append(p.Exhaustive, k)
	}
	sort.Strings(p.Exhaustive)
	for k := range rec.assume {
		p.Assume = append(p.Assume, k)
	}
	sort.Strings(p.Assume)
	buf := make([]byte, 0, 8*len(rec.fps))
	for fp := range rec.fps {
		buf = binary.LittleEndian.AppendUint64(buf, fp)
	}
	_ = os.WriteFile(out+".fp", buf, 0o644)
	b, err := json.Marshal(p)
	if err != nil {
		b, _ = json.Marshal(map[string]any{"error": err.Error(), "evaluations": rec.evals})
	}
	_ = os.WriteFile(out, b, 0o644)
}

// Main is the TestMain body of every harness package.
func Main(m *testing.M) {
	code := m.Run()
	Flush()
	os.Exit(code)
}

// ---------------------------------------------------------------------------------------------
// replay files for non-rapid (enumerated / history) failures

// WriteReplay stores an explicit failing case as JSON under $VERIF_REPLAY_DIR and returns its path.
func WriteReplay(test string, c any) string {
	dir := os.Getenv("VERIF_REPLAY_DIR")
	if dir == "" {
		dir = os.TempDir()
	}
	_ = os.MkdirAll(dir, 0o755)
	b, _ := json.MarshalIndent(map[string]any{"test": test, "case": c}, "", " ")
	path := filepath.Join(dir, fmt.Sprintf("%s-%016x.json", test, FP(string(b))))
	_ = os.WriteFile(path, b, 0o644)
	return path
}

// ReplayCase loads the case of a JSON replay file addressed to test (nil if none requested).
func ReplayCase(test string, into any) bool {
	path := os.Getenv("VERIF_REPLAY_FILE")
	if path == "" {
		return false
	}
	b, err := os.ReadFile(path)
	if err != nil {
		return false
	}
	var w struct {
		Test string          `json:"test"`
		Case json.RawMessage `json:"case"`
	}
	if json.Unmarshal(b, &w) != nil || w.Test != test {
		return false
	}
	return json.Unmarshal(w.Case, into) == nil
}

// Failf writes a JSON replay file for the case and fails the test.
func Failf(t testing.TB, test string, c any, format string, a ...any) {
	t.Helper()
	p := WriteReplay(test, c)
	t.Fatalf("VERIF-REPLAY %s\n%s", p, fmt.Sprintf(format, a...))
}

// Mix spreads a drawn integer uniformly over [0,n): rapid favours small values and range bounds,
// which starves the later alternatives of long lists; shrinking still works on the drawn integer.
func Mix(u uint64, n int) int {
	u ^= u >> 33
	u *= 0xff51afd7ed558ccd
	u ^= u >> 33
	u *= 0xc4ceb9fe1a85ec53
	u ^= u >> 33
	return int(u % uint64(n))
}
