// Package c02: every successful quorum write shares a replica with every successful quorum read.
package c02

import (
	"fmt"
	"sort"
	"testing"
	"time"

	"pgregory.net/rapid"

	"github.com/grafana/dskit/ring"

	"verifharness/internal/fakekv"
	"verifharness/internal/gen"
	"verifharness/internal/vx"
)

func TestMain(m *testing.M) {
	vx.Rule("a (ring, key) pair is non-trivial when both lookups succeed, at least one tolerance is > 0 and the ring has more instances than the write set; distinct = distinct (descriptor, RF, zone-awareness, key) fingerprint")
	vx.Assume("write tolerance read as ring/batch.go does (minSuccess = len(instances) - MaxErrors); read tolerance as the result trackers do (instances, or whole zones when zone-aware)")
	vx.Assume("both lookups are taken at the same frozen virtual instant")
	vx.Main(m)
}

func subsets(ids []string, k int) [][]string {
	var out [][]string
	var rec func(start int, cur []string)
	rec = func(start int, cur []string) {
		if len(cur) == k {
			out = append(out, append([]string(nil), cur...))
			return
		}
		for i := start; i < len(ids); i++ {
			rec(i+1, append(cur, ids[i]))
		}
	}
	if k < 0 {
		k = 0
	}
	rec(0, nil)
	return out
}

type c02case struct {
	Ins []gen.Inst `json:"instances"`
	RF  int        `json:"rf"`
	ZA  bool       `json:"zone_aware"`
}

func idsOf(rs ring.ReplicationSet) []string {
	var out []string
	for _, i := range rs.Instances {
		out = append(out, i.Id)
	}
	sort.Strings(out)
	return out
}

// answerSets enumerates every minimal set of instances whose answers make the read succeed.
func answerSets(rd ring.ReplicationSet) [][]string {
	if rd.ZoneAwarenessEnabled {
		zs := map[string][]string{}
		var zn []string
		for _, i := range rd.Instances {
			if _, ok := zs[i.Zone]; !ok {
				zn = append(zn, i.Zone)
			}
			zs[i.Zone] = append(zs[i.Zone], i.Id)
		}
		sort.Strings(zn)
		var out [][]string
		for _, pick := range subsets(zn, len(zn)-rd.MaxUnavailableZones) {
			var a []string
			for _, z := range pick {
				a = append(a, zs[z]...)
			}
			out = append(out, a)
		}
		return out
	}
	return subsets(idsOf(rd), len(rd.Instances)-rd.MaxErrors)
}

func checkCase(t *testing.T, c c02case, keys []uint32, record bool) (err error) {
	vx.Bubble(t, func(b *vx.B) {
		r := fakekv.NewRing(ring.Config{HeartbeatTimeout: time.Minute, ReplicationFactor: c.RF, ZoneAwarenessEnabled: c.ZA}, gen.Desc(c.Ins, time.Now()))
		defer r.Stop()
		rd, rerr := r.GetReplicationSetForOperation(ring.Read)
		if record {
			vx.Class("rings", 1)
		}
		if rerr != nil {
			if record {
				vx.Class("read_lookup_fails", 1)
			}
			return
		}
		if rd.ZoneAwarenessEnabled != c.ZA {
			err = fmt.Errorf("read set zone-awareness flag %v != ring config %v", rd.ZoneAwarenessEnabled, c.ZA)
			return
		}
		if rd.MaxErrors < 0 || rd.MaxUnavailableZones < 0 {
			err = fmt.Errorf("negative read tolerance %d/%d", rd.MaxErrors, rd.MaxUnavailableZones)
			return
		}
		answers := answerSets(rd)
		for _, k := range keys {
			w, werr := r.Get(k, ring.Write, nil, nil, nil)
			if record {
				vx.Eval(1)
			}
			if werr != nil {
				if record {
					vx.Class("write_lookup_fails", 1)
				}
				continue
			}
			if record {
				vx.Class("both_succeed", 1)
				if (w.MaxErrors > 0 || rd.MaxErrors > 0 || rd.MaxUnavailableZones > 0) && len(c.Ins) > len(w.Instances) {
					vx.NonTrivial(vx.FP(fmt.Sprint(c.Ins), c.RF, c.ZA, k))
				}
				if w.MaxErrors > 0 {
					vx.Class("write_tolerance_gt0", 1)
				}
				if rd.MaxErrors > 0 || rd.MaxUnavailableZones > 0 {
					vx.Class("read_tolerance_gt0", 1)
				}
			}
			if w.MaxErrors < 0 || w.MaxErrors >= len(w.Instances) {
				err = fmt.Errorf("key=%d: write tolerance %d out of range for %v", k, w.MaxErrors, idsOf(w))
				return
			}
			for _, ack := range subsets(idsOf(w), len(w.Instances)-w.MaxErrors) {
				am := map[string]bool{}
				for _, a := range ack {
					am[a] = true
				}
				for _, ans := range answers {
					hit := false
					for _, x := range ans {
						if am[x] {
							hit = true
							break
						}
					}
					if !hit {
						err = fmt.Errorf("no common replica: key=%d rf=%d za=%v ackSet=%v answerSet=%v write=%v/maxErr=%d read=%v/maxErr=%d/maxZones=%d", k, c.RF, c.ZA, ack, ans, idsOf(w), w.MaxErrors, idsOf(rd), rd.MaxErrors, rd.MaxUnavailableZones)
						return
					}
				}
			}
		}
	})
	return err
}

func TestQuorumIntersectionRapid(t *testing.T) {
	rapid.Check(t, func(rt *rapid.T) {
		c := c02case{ZA: rapid.Bool().Draw(rt, "zoneAware"), RF: rapid.IntRange(1, 5).Draw(rt, "rf")}
		nz := rapid.IntRange(1, 5).Draw(rt, "zones")
		zones := []string{"a", "b", "c", "d", "e"}[:nz]
		c.Ins = gen.Instances(rt, gen.Opts{MinN: 1, MaxN: 9, Zones: zones, MinTok: 0, MaxTok: 3, HealthyBias: true})
		keys := gen.BoundaryKeys(c.Ins, rapid.Uint32().Draw(rt, "k"))
		if len(keys) > 14 {
			keys = keys[:14]
		}
		if vx.WantSample("ring_case") && len(c.Ins) <= 4 && len(c.Ins) >= 3 {
			vx.Sample("ring_case", map[string]any{"instances": fmt.Sprint(c.Ins), "rf": c.RF, "zone_aware": c.ZA})
		}
		if err := checkCase(t, c, keys, true); err != nil {
			rt.Fatalf("%v\ninstances=%v", err, c.Ins)
		}
	})
}

// TestQuorumIntersectionSweep: deterministic sweep over zone shapes: z zones x per-zone counts x
// which single instance / whole zone is unhealthy x RF 1..5 x zone-awareness.
func TestQuorumIntersectionSweep(t *testing.T) {
	var rc c02case
	if vx.ReplayCase("TestQuorumIntersectionSweep", &rc) {
		if err := checkCase(t, rc, gen.BoundaryKeys(rc.Ins), false); err != nil {
			t.Fatalf("replay: %v", err)
		}
		return
	}
	zn := []string{"a", "b", "c", "d", "e"}
	idx := 0
	maxPer := vx.Pick(2, 3)
	for z := 1; z <= 5; z++ {
		shapes := 1
		for i := 0; i < z; i++ {
			shapes *= maxPer
		}
		for shape := 0; shape < shapes; shape++ {
			var base []gen.Inst
			sc := shape
			tok := uint32(10)
			for zi := 0; zi < z; zi++ {
				n := sc%maxPer + 1
				sc /= maxPer
				for k := 0; k < n; k++ {
					base = append(base, gen.Inst{ID: fmt.Sprintf("%s%d", zn[zi], k), Zone: zn[zi], Tokens: []uint32{tok, tok + 1<<30}, State: ring.ACTIVE})
					tok += 7
				}
			}
			// failure patterns: none, each single instance unhealthy (by state or by age), first two instances
			for f := -1; f < 2*len(base)+1; f++ {
				ins := append([]gen.Inst(nil), base...)
				switch {
				case f >= 0 && f < len(base):
					ins[f].AgeSec = 61
				case f >= len(base) && f < 2*len(base):
					ins[f-len(base)].State = ring.JOINING
				case f == 2*len(base) && len(base) >= 2:
					ins[0].AgeSec, ins[1].State = 600, ring.LEAVING
				}
				for rf := 1; rf <= 5; rf++ {
					for _, za := range []bool{false, true} {
						idx++
						if !vx.Mine(idx) {
							continue
						}
						c := c02case{Ins: ins, RF: rf, ZA: za}
						if err := checkCase(t, c, gen.BoundaryKeys(ins)[:min(12, len(gen.BoundaryKeys(ins)))], true); err != nil {
							vx.Failf(t, "TestQuorumIntersectionSweep", c, "%v\ninstances=%v", err, ins)
						}
					}
				}
			}
		}
	}
	vx.Exhaustive(fmt.Sprintf("zone shapes: 1..5 zones x 1..%d instances per zone x {no failure, each single instance stale, each single instance JOINING, two failures} x RF 1..5 x zone-awareness on/off", maxPer))
}
