package c05

import (
	"context"
	"fmt"
	"sort"
	"testing"
	"time"

	"github.com/go-kit/log"
	"pgregory.net/rapid"

	"github.com/grafana/dskit/kv/consul"
	"github.com/grafana/dskit/ring"
	"github.com/grafana/dskit/services"

	"verifharness/internal/lcx"
	"verifharness/internal/vx"
)

// TestOwnersRecheckTokensRapid: the second mechanism of the property. While a lifecycler observes
// its freshly chosen tokens, the harness plays the conflict resolution of the gossip store: some of
// its tokens are taken away and given to an instance with a smaller identifier. After the observe
// period the lifecycler must hold its full count again, without any token another instance holds.
func TestOwnersRecheckTokensRapid(t *testing.T) {
	rapid.Check(t, func(rt *rapid.T) {
		basic := rapid.Bool().Draw(rt, "basic")
		n := rapid.IntRange(1, 6).Draw(rt, "numTokens")
		observe := time.Duration(rapid.SampledFrom([]int{1, 2, 4}).Draw(rt, "observeS")) * time.Second
		rounds := rapid.IntRange(1, 3).Draw(rt, "stealRounds")
		seed := uint32(rapid.IntRange(0, 31).Draw(rt, "genSeed"))
		// heartbeats during the observation (period shorter than the observe period) or not
		hb := time.Duration(rapid.SampledFrom([]int{500, 1000, 5000}).Draw(rt, "heartbeatMs")) * time.Millisecond
		steal := make([][]int, rounds)
		for r := range steal {
			steal[r] = rapid.SliceOfNDistinct(rapid.IntRange(0, n-1), 1, n, func(i int) int { return i }).Draw(rt, "stealIdx")
		}
		var failure string
		stolenTotal := 0
		vx.Bubble(t, func(b *vx.B) {
			store, closer := consul.NewInMemoryClient(ring.GetCodec(), log.NewNopLogger(), nil)
			b.Cleanup(func() { _ = closer.Close() })
			ctx := context.Background()
			_ = store.CAS(ctx, lcx.RingKey, func(interface{}) (interface{}, bool, error) {
				d := ring.NewDesc()
				d.AddIngester("aaa", "aaa:1", "z", []uint32{40, 41}, ring.ACTIVE, time.Now(), false, time.Time{}, nil)
				return d, true, nil
			})
			// a first life of the same instance may have died while observing and left its entry behind
			// (same tokens the register delegate hands out again): the second life observes them all the same
			leftoverEntry := basic && rapid.Bool().Draw(rt, "entryLeftByAFirstLife")
			if leftoverEntry {
				_ = store.CAS(ctx, lcx.RingKey, func(in interface{}) (interface{}, bool, error) {
					d := ring.GetOrCreateRingDesc(in)
					g := &lcx.SmallGen{Seed: seed, Space: 32}
					toks := g.GenerateTokens(n, d.GetTokens())
					d.AddIngester("zzz", "zzz:1", "z", toks, ring.ACTIVE, time.Now().Add(-time.Minute), false, time.Time{}, nil)
					return d, true, nil
				})
			}
			cfg := lcx.Cfg{ID: "zzz", Basic: basic, NumTokens: n, JoinAfter: 0, Observe: observe, HBPeriod: hb, GenSeed: seed, GenSpace: 32, RegState: ring.ACTIVE}
			l, err := lcx.New(cfg, store)
			if err != nil {
				failure = err.Error()
				return
			}
			b.Cleanup(func() { l.Svc.StopAsync(); time.Sleep(20 * time.Second) })
			go func() { _ = services.StartAndAwaitRunning(ctx, l.Svc) }()
			// when the owner stopped observing (the basic lifecycler runs, the full one is ACTIVE)
			t0 := time.Now()
			var observedUntil, lastSteal time.Time
			done := func() bool {
				if l.Full != nil {
					return l.Full.GetState() == ring.ACTIVE
				}
				return l.Svc.State() == services.Running
			}
			go func() {
				for i := 0; i < 2000; i++ {
					if done() {
						observedUntil = time.Now()
						return
					}
					time.Sleep(50 * time.Millisecond)
				}
			}()
			for r := 0; r < rounds; r++ {
				time.Sleep(observe / 2)
				vx.Wait()
				// only while the owner is still observing: afterwards nobody re-checks (by design)
				if (l.Full != nil && l.Full.GetState() != ring.JOINING) || (l.Basic != nil && l.Svc.State() != services.Starting) {
					continue
				}
				// the loser of a collision simply lacks the token; the winner (smaller id) holds it
				_ = store.CAS(ctx, lcx.RingKey, func(in interface{}) (interface{}, bool, error) {
					d := ring.GetOrCreateRingDesc(in)
					me, ok := d.Ingesters["zzz"]
					if !ok || len(me.Tokens) == 0 {
						return nil, false, nil
					}
					win := d.Ingesters["aaa"]
					var keep []uint32
					for i, tk := range me.Tokens {
						taken := false
						for _, si := range steal[r] {
							if si == i {
								taken = true
							}
						}
						if taken {
							win.Tokens = append(win.Tokens, tk)
							stolenTotal++
							lastSteal = time.Now()
						} else {
							keep = append(keep, tk)
						}
					}
					sort.Slice(win.Tokens, func(a, b int) bool { return win.Tokens[a] < win.Tokens[b] })
					me.Tokens = keep
					d.Ingesters["zzz"], d.Ingesters["aaa"] = me, win
					return d, true, nil
				})
				time.Sleep(observe)
				vx.Wait()
			}
			time.Sleep(3*observe + 6*time.Second)
			vx.Wait()
			v, _ := store.Get(ctx, lcx.RingKey)
			d := ring.GetOrCreateRingDesc(v)
			me := d.Ingesters["zzz"]
			if me.State != ring.ACTIVE || l.State() != ring.ACTIVE {
				failure = fmt.Sprintf("after its tokens were taken during the observe period the instance is %v (ring) / %v (local), not ACTIVE", me.State, l.State())
				return
			}
			if basic && !observedUntil.IsZero() && observedUntil.Before(t0.Add(observe-100*time.Millisecond)) {
				failure = fmt.Sprintf("the basic lifecycler (entry left by a first life: %v) ran after %v, its tokens observe period is %v", leftoverEntry, observedUntil.Sub(t0), observe)
				return
			}
			// replacement tokens are observed too: after a loss the owner keeps observing for a whole period
			if !lastSteal.IsZero() && !observedUntil.IsZero() && observedUntil.Before(lastSteal.Add(observe-100*time.Millisecond)) {
				failure = fmt.Sprintf("tokens were taken away at t=%v, the owner stopped observing at t=%v: the replacement tokens were not observed for a whole period (%v)", lastSteal.Sub(t0), observedUntil.Sub(t0), observe)
				return
			}
			if len(me.Tokens) != n {
				failure = fmt.Sprintf("after losing %d tokens during the observe period the instance holds %d tokens %v, configured %d", stolenTotal, len(me.Tokens), me.Tokens, n)
				return
			}
			other := map[uint32]bool{}
			for _, tk := range d.Ingesters["aaa"].Tokens {
				other[tk] = true
			}
			for i, tk := range me.Tokens {
				if i > 0 && me.Tokens[i-1] >= tk {
					failure = fmt.Sprintf("tokens not sorted and distinct: %v", me.Tokens)
					return
				}
				if other[tk] {
					failure = fmt.Sprintf("the instance holds token %d, which the collision winner 'aaa' holds (%v)", tk, d.Ingesters["aaa"].Tokens)
					return
				}
			}
		})
		vx.Eval(1)
		vx.Class("recheck_runs", 1)
		if stolenTotal > 0 {
			vx.NonTrivial(vx.FP("recheck", basic, n, observe, hb, fmt.Sprint(steal), seed))
			vx.Class("tokens_taken_during_observe", stolenTotal)
		}
		if failure != "" {
			rt.Fatalf("%s (basic=%v tokens=%d observe=%v heartbeat=%v steal=%v)", failure, basic, n, observe, hb, steal)
		}
	})
}
