// Package c05: each token has one owner on every replica and lookups never see a broken index.
package c05

import (
	"errors"
	"fmt"
	"sort"
	"testing"
	"time"

	"pgregory.net/rapid"

	"github.com/grafana/dskit/ring"

	"verifharness/internal/fakekv"
	"verifharness/internal/model"
	"verifharness/internal/vx"
)

func TestMain(m *testing.M) {
	vx.Rule("a step is non-trivial when the entry set after the per-entry last-writer-wins step contains a token claimed by >= 2 live entries (a resolution actually happens); distinct = distinct (pre-state, incoming) fingerprint")
	vx.Assume("receivers only evolve through Merge (so they are normalised, as Merge's doc requires); incoming descriptors may be unsorted / contain duplicate tokens")
	vx.Assume("no cross-replica token equality is asserted for replicas holding the same (id, timestamp) pairs: the 'tokens unchanged' shortcut legitimately keeps an earlier loss; the winner rule is checked per resolution as a function of the entries that resolution sees")
	vx.Main(m)
}

var tokenSpace = []uint32{0, 1, 2, 3, 4, 5, ^uint32(0)}
var idSpace = []string{"a", "b", "c", "d"}
var zoneOf = map[string]string{"a": "z1", "b": "z2", "c": "z1", "d": "z2"}
var states5 = []ring.InstanceState{ring.ACTIVE, ring.LEAVING, ring.PENDING, ring.JOINING, ring.LEFT}

func normTokens(ts []uint32) []uint32 {
	m := map[uint32]bool{}
	for _, t := range ts {
		m[t] = true
	}
	out := make([]uint32, 0, len(m))
	for t := range m {
		out = append(out, t)
	}
	sort.Slice(out, func(a, b int) bool { return out[a] < out[b] })
	return out
}

// expected computes, from the pre-state and the incoming descriptor, the entry set E after the
// per-entry LWW step (plus local-CAS tombstoning) and the token lists the winner rule demands.
func expected(pre, inc *ring.Desc, localCAS bool) (E map[string]ring.InstanceDesc, want map[string][]uint32, collision bool, tokensChanged bool) {
	E = map[string]ring.InstanceDesc{}
	for id, e := range pre.Ingesters {
		E[id] = e
	}
	for id, o := range inc.Ingesters {
		o.Tokens = normTokens(o.Tokens)
		if o.State == ring.LEFT {
			o.Tokens = nil
		}
		cur := E[id] // zero value: timestamp 0
		if o.Timestamp > cur.Timestamp {
			if fmt.Sprint(normTokens(cur.Tokens)) != fmt.Sprint(o.Tokens) {
				tokensChanged = true
			}
			E[id] = o
		} else if o.Timestamp == cur.Timestamp && cur.State != ring.LEFT && o.State == ring.LEFT {
			E[id] = o
		}
	}
	if localCAS {
		for id, e := range E {
			if _, ok := inc.Ingesters[id]; !ok && e.State != ring.LEFT {
				e.State, e.Tokens = ring.LEFT, nil
				E[id] = e
			}
		}
	}
	claim := map[uint32][]string{}
	for id, e := range E {
		if e.State == ring.LEFT {
			continue
		}
		for _, tk := range e.Tokens {
			claim[tk] = append(claim[tk], id)
		}
	}
	want = map[string][]uint32{}
	for tk, ids := range claim {
		if len(ids) > 1 {
			collision = true
		}
		sort.Slice(ids, func(a, b int) bool {
			la, lb := E[ids[a]].State == ring.LEAVING, E[ids[b]].State == ring.LEAVING
			if la != lb {
				return !la
			}
			return ids[a] < ids[b]
		})
		want[ids[0]] = append(want[ids[0]], tk)
	}
	for id := range want {
		w := want[id]
		sort.Slice(w, func(a, b int) bool { return w[a] < w[b] })
	}
	return
}

func invariants(d *ring.Desc) error {
	owner := map[uint32]string{}
	for id, e := range d.Ingesters {
		if e.State == ring.LEFT && len(e.Tokens) > 0 {
			return fmt.Errorf("LEFT entry %s still holds tokens %v", id, e.Tokens)
		}
		for i, tk := range e.Tokens {
			if i > 0 && e.Tokens[i-1] >= tk {
				return fmt.Errorf("token list of %s is not strictly increasing: %v", id, e.Tokens)
			}
			if o, dup := owner[tk]; dup {
				return fmt.Errorf("token %d is held by both %s and %s", tk, o, id)
			}
			owner[tk] = id
		}
	}
	return nil
}

type lookups struct {
	za, plain *fakekv.PushRing
}

func newLookups() *lookups {
	return &lookups{
		za:    fakekv.NewRing(ring.Config{HeartbeatTimeout: time.Hour, ReplicationFactor: 2, ZoneAwarenessEnabled: true}, nil),
		plain: fakekv.NewRing(ring.Config{HeartbeatTimeout: time.Hour, ReplicationFactor: 3}, nil),
	}
}

func (l *lookups) stop() { l.za.Stop(); l.plain.Stop() }

// query feeds the client-visible state (tombstones stripped) to ring clients and runs every lookup;
// none may report inconsistent token information (a panic is caught by rapid as a failure).
func (l *lookups) query(state *ring.Desc) error {
	vis := model.CloneDesc(state)
	vis.RemoveTombstones(time.Time{})
	bad := func(what string, err error) error {
		if err != nil && errors.Is(err, ring.ErrInconsistentTokensInfo) {
			return fmt.Errorf("%s reported inconsistent token information: %v (visible state: %s)", what, err, model.CanonDesc(vis))
		}
		return nil
	}
	for _, r := range []*fakekv.PushRing{l.za, l.plain} {
		r.Push(model.CloneDesc(vis))
		var keys []uint32
		for _, tk := range tokenSpace {
			keys = append(keys, tk-1, tk, tk+1)
		}
		for _, k := range keys {
			for _, op := range []ring.Operation{ring.Write, ring.Read, ring.Reporting, ring.WriteNoExtend} {
				rs, err := r.Get(k, op, nil, nil, nil)
				if e := bad(fmt.Sprintf("Get(%d)", k), err); e != nil {
					return e
				}
				seen := map[string]bool{}
				for _, in := range rs.Instances {
					if seen[in.Id] {
						return fmt.Errorf("Get(%d) returned instance %s twice", k, in.Id)
					}
					seen[in.Id] = true
				}
			}
		}
		if _, err := r.GetReplicationSetForOperation(ring.Read); bad("GetReplicationSetForOperation", err) != nil {
			return bad("GetReplicationSetForOperation", err)
		}
		for _, size := range []int{1, 2, 3} {
			sub := r.ShuffleShard("tenant", size)
			if _, err := sub.Get(3, ring.Write, nil, nil, nil); bad("ShuffleShard.Get", err) != nil {
				return bad("ShuffleShard.Get", err)
			}
			sub2 := r.ShuffleShardWithLookback("tenant", size, time.Hour, time.Now())
			if _, err := sub2.Get(3, ring.Write, nil, nil, nil); bad("ShuffleShardWithLookback.Get", err) != nil {
				return bad("ShuffleShardWithLookback.Get", err)
			}
		}
		for id := range vis.Ingesters {
			if _, err := r.GetTokenRangesForInstance(id); bad("GetTokenRangesForInstance", err) != nil {
				return bad("GetTokenRangesForInstance", err)
			}
		}
	}
	// every token is counted for exactly one live instance
	counts := vis.CountTokens()
	for id := range counts {
		if _, ok := vis.Ingesters[id]; !ok {
			return fmt.Errorf("CountTokens reports unknown instance %s", id)
		}
	}
	return nil
}

func TestMergeHistoriesRapid(t *testing.T) {
	rapid.Check(t, func(rt *rapid.T) {
		nRep := rapid.IntRange(1, 3).Draw(rt, "replicas")
		reps := make([]*ring.Desc, nRep)
		for i := range reps {
			reps[i] = ring.NewDesc()
		}
		lk := newLookups()
		defer lk.stop()
		ts := map[string]int64{}
		// entries written by older clients carry no Id field (the map key is the identifier; the ring
		// client fills the field in when it loads a descriptor): per history, some instances are such
		legacy := map[string]bool{}
		if rapid.IntRange(0, 2).Draw(rt, "someLegacyEntries") == 0 {
			for _, id := range idSpace {
				if rapid.Bool().Draw(rt, "legacy") {
					legacy[id] = true
				}
			}
			vx.Class("histories_with_entries_without_id_field", 1)
		}
		idField := func(id string) string {
			if legacy[id] {
				return ""
			}
			return id
		}
		type heldSnap struct {
			d     *ring.Desc
			canon string
		}
		var snaps []heldSnap
		var pool []*ring.Desc // every change ever returned by a merge
		steps := rapid.IntRange(1, vx.Pick(20, 30)).Draw(rt, "steps")
		var hist []string
		for s := 0; s < steps; s++ {
			ri := rapid.IntRange(0, nRep-1).Draw(rt, "replica")
			recv := reps[ri]
			var inc *ring.Desc
			localCAS := false
			kind := rapid.IntRange(0, 9).Draw(rt, "kind")
			switch {
			case kind <= 5 || (kind <= 7 && len(pool) == 0):
				inc = ring.NewDesc()
				n := rapid.IntRange(1, 3).Draw(rt, "n")
				for i := 0; i < n; i++ {
					id := rapid.SampledFrom(idSpace).Draw(rt, "id")
					if _, dup := inc.Ingesters[id]; dup {
						continue
					}
					ts[id] += int64(rapid.IntRange(0, 2).Draw(rt, "bump"))
					if ts[id] == 0 {
						ts[id] = 1
					}
					toks := rapid.SliceOfN(rapid.SampledFrom(tokenSpace), 0, 4).Draw(rt, "toks")
					st := rapid.SampledFrom(states5).Draw(rt, "state")
					inc.Ingesters[id] = ring.InstanceDesc{Id: idField(id), Addr: id + ":1", Zone: zoneOf[id], Timestamp: ts[id], State: st, Tokens: toks}
				}
			case kind <= 7:
				inc = model.CloneDesc(pool[rapid.IntRange(0, len(pool)-1).Draw(rt, "poolIdx")])
			default:
				// local CAS: the visible clone with one entry modified or removed
				localCAS = true
				inc = model.CloneDesc(recv)
				inc.RemoveTombstones(time.Time{})
				id := rapid.SampledFrom(idSpace).Draw(rt, "casId")
				if rapid.IntRange(0, 3).Draw(rt, "casRemove") == 0 {
					delete(inc.Ingesters, id)
				} else {
					ts[id]++
					toks := rapid.SliceOfN(rapid.SampledFrom(tokenSpace), 0, 4).Draw(rt, "casToks")
					st := rapid.SampledFrom(states5[:4]).Draw(rt, "casState")
					inc.Ingesters[id] = ring.InstanceDesc{Id: idField(id), Addr: id + ":1", Zone: zoneOf[id], Timestamp: ts[id], State: st, Tokens: normTokens(toks)}
				}
			}
			pre := model.CloneDesc(recv)
			E, want, collision, tokensChanged := expected(pre, inc, localCAS)
			hist = append(hist, fmt.Sprintf("r%d localCAS=%v inc=%s", ri, localCAS, model.CanonDesc(inc)))
			vx.Eval(1)
			if collision {
				vx.NonTrivial(vx.FP(model.CanonDesc(pre), model.CanonDesc(inc), localCAS))
				vx.Class("steps_with_collision", 1)
			}
			if localCAS {
				vx.Class("local_cas_steps", 1)
			}

			// determinism: the same merge on two more clones gives the same result
			alt := model.CloneDesc(pre)
			if _, err := alt.Merge(model.CloneDesc(inc), localCAS); err != nil {
				rt.Fatalf("merge error: %v", err)
			}
			// a snapshot handed out before the merge (what a ring client, a watcher or an in-flight CAS holds:
			// the library's own Clone, which shares what it may share) still reads the same afterwards
			snap := recv.Clone().(*ring.Desc)
			snapCanon := model.CanonDesc(snap)
			ch, err := recv.Merge(model.CloneDesc(inc), localCAS)
			if err != nil {
				rt.Fatalf("merge error: %v", err)
			}
			if got := model.CanonDesc(snap); got != snapCanon {
				rt.Fatalf("a snapshot taken before the merge changed under its holder:\n before = %s\n after  = %s\n inc    = %s (localCAS=%v)", snapCanon, got, model.CanonDesc(inc), localCAS)
			}
			snaps = append(snaps, heldSnap{snap, snapCanon})
			if len(snaps) > 4 {
				snaps = snaps[1:]
			}
			for _, hs := range snaps {
				if got := model.CanonDesc(hs.d); got != hs.canon {
					rt.Fatalf("a snapshot taken %d merges ago changed under its holder:\n before = %s\n after  = %s", len(snaps), hs.canon, got)
				}
			}
			stripTs := func(d *ring.Desc) string {
				if !localCAS {
					return model.CanonDesc(d)
				}
				c := model.CloneDesc(d) // local-CAS tombstones carry time.Now(): compare without it
				for id, e := range c.Ingesters {
					if e.State == ring.LEFT {
						e.Timestamp = 0
						c.Ingesters[id] = e
					}
				}
				return model.CanonDesc(c)
			}
			if stripTs(alt) != stripTs(recv) {
				rt.Fatalf("merge is not deterministic:\n pre = %s\n inc = %s\n 1st = %s\n 2nd = %s", model.CanonDesc(pre), model.CanonDesc(inc), model.CanonDesc(recv), model.CanonDesc(alt))
			}
			if ch != nil {
				pool = append(pool, model.CloneDesc(ch.(*ring.Desc)))
			}
			if err := invariants(recv); err != nil {
				rt.Fatalf("%v\n pre  = %s\n inc  = %s (localCAS=%v)\n post = %s\nhistory:\n%v", err, model.CanonDesc(pre), model.CanonDesc(inc), localCAS, model.CanonDesc(recv), hist)
			}
			if collision && !tokensChanged {
				rt.Fatalf("model: collision without a token change; pre=%s inc=%s", model.CanonDesc(pre), model.CanonDesc(inc))
			}
			// winner rule
			for id, e := range recv.Ingesters {
				w := want[id]
				if E[id].State == ring.LEFT {
					w = nil
				}
				if _, ok := E[id]; !ok {
					rt.Fatalf("entry %s appeared from nowhere", id)
				}
				if !(len(w) == 0 && len(e.Tokens) == 0) && fmt.Sprint(w) != fmt.Sprint(e.Tokens) {
					rt.Fatalf("winner rule: %s holds %v, want %v\n pre  = %s\n inc  = %s (localCAS=%v)\n post = %s", id, e.Tokens, w, model.CanonDesc(pre), model.CanonDesc(inc), localCAS, model.CanonDesc(recv))
				}
				if e.State != E[id].State {
					rt.Fatalf("entry %s has state %v, LWW step gives %v", id, e.State, E[id].State)
				}
			}
			if len(recv.Ingesters) != len(E) {
				rt.Fatalf("entry sets differ: post=%s", model.CanonDesc(recv))
			}
			if err := lk.query(recv); err != nil {
				rt.Fatalf("%v\nhistory:\n%v", err, hist)
			}
		}
		if vx.WantSample("merge_history") && len(hist) >= 3 && len(hist) <= 6 {
			vx.Sample("merge_history", hist)
		}
	})
}
