// Package c11: quorum reads return only quorum-backed results and release everything else.
package c11

import (
	"context"
	"errors"
	"fmt"
	"sort"
	"strings"
	"sync"
	"testing"
	"time"

	"pgregory.net/rapid"

	"github.com/grafana/dskit/ring"

	"verifharness/internal/vx"
)

func TestMain(m *testing.M) {
	vx.Rule("an execution is non-trivial when a successful call finishes after the executor has returned (the late-result cleanup race), or a held-back request is released by a failure or by the hedging delay; distinct = distinct scenario fingerprint")
	vx.Assume("calls are gated: the harness releases one call at a time under a virtual clock and observes at quiescent points")
	vx.Assume("legacy ReplicationSet.Do documents 'a slice of all results': the complete-zone clause is applied to the DoUntilQuorum family only")
	vx.Assume("result order is not asserted")
	vx.Main(m)
}

type termErr struct{ s string }

func (e termErr) Error() string { return e.s }

type setSpec struct {
	Zones     []string `json:"zones"` // zone of each instance of the set
	MaxErrors int      `json:"max_errors"`
	MaxZones  int      `json:"max_unavailable_zones"`
	ZoneAware bool     `json:"zone_aware"`
}

type scenario struct {
	Variant    string       `json:"variant"` // quorum | without | multi | legacy
	Sets       []setSpec    `json:"sets"`
	Minimize   bool         `json:"minimize"`
	Hedge      bool         `json:"hedge"`
	Sorter     bool         `json:"sorter"`
	Outcomes   []string     `json:"outcomes"` // per global instance index: ok | err | terminal
	Prio       []int        `json:"priority"`
	CancelAt   int          `json:"cancel_at"` // -1 before any completion, k after the k-th, 99 never
	HedgeTicks map[int]bool `json:"hedge_ticks"`
	Delay      bool         `json:"delay"` // legacy Do: delayed extra requests
	// the cleanup callback blocks; the harness lets it go on at once, except in a set that has already
	// finished while another set is still undecided (its worker is then still busy when the other set fails)
	SlowCleanup bool `json:"slow_cleanup"`
	// the first result arrives part-way into the first hedging delay
	SplitDelay bool `json:"split_delay"`
}

func (s scenario) String() string {
	return fmt.Sprintf("variant=%s sets=%+v minimize=%v hedge=%v sorter=%v outcomes=%v order=%v cancelAt=%d hedgeTicks=%v delay=%v slowCleanup=%v", s.Variant, s.Sets, s.Minimize, s.Hedge, s.Sorter, s.Outcomes, s.Prio, s.CancelAt, s.HedgeTicks, s.Delay, s.SlowCleanup)
}

const hedgeDelay = 10 * time.Second

// setModel is the reference quorum tracker of one replication set.
type setModel struct {
	spec      setSpec
	base      int // global index of the set's first instance
	n         int
	zoneMode  bool
	invalid   bool
	zoneNames []string
	zonesOf   map[string][]int // zone -> global indexes
	succ      map[int]bool
	failed    map[int]bool
	done, ok  bool
	results   map[int]bool
	err       error
	errIsCtx  bool
}

func newSetModel(spec setSpec, base int) *setModel {
	m := &setModel{spec: spec, base: base, n: len(spec.Zones), zonesOf: map[string][]int{}, succ: map[int]bool{}, failed: map[int]bool{}}
	m.zoneMode = spec.MaxZones > 0 || spec.ZoneAware
	m.invalid = spec.ZoneAware && spec.MaxErrors > 0
	for i, z := range spec.Zones {
		if _, ok := m.zonesOf[z]; !ok {
			m.zoneNames = append(m.zoneNames, z)
		}
		m.zonesOf[z] = append(m.zonesOf[z], base+i)
	}
	sort.Strings(m.zoneNames)
	return m
}

func (m *setModel) minZones() int {
	v := len(m.zoneNames) - m.spec.MaxZones
	if v < 0 {
		v = 0
	}
	return v
}

func (m *setModel) zoneComplete(z string) bool {
	for _, i := range m.zonesOf[z] {
		if !m.succ[i] {
			return false
		}
	}
	return true
}

func (m *setModel) zoneFailed(z string) bool {
	for _, i := range m.zonesOf[z] {
		if m.failed[i] {
			return true
		}
	}
	return false
}

// decide re-evaluates the termination conditions after an event (lastErr = the error just returned, if any).
func (m *setModel) decide(lastErr error) {
	if m.done {
		return
	}
	if lastErr != nil {
		if _, term := lastErr.(termErr); term {
			m.done, m.err = true, lastErr
			return
		}
	}
	if m.zoneMode {
		nf := 0
		var complete []string
		for _, z := range m.zoneNames {
			if m.zoneFailed(z) {
				nf++
			}
			if m.zoneComplete(z) {
				complete = append(complete, z)
			}
		}
		if lastErr != nil && nf > m.spec.MaxZones {
			m.done, m.err = true, lastErr
			return
		}
		if len(complete) >= m.minZones() {
			res := map[int]bool{}
			for _, z := range complete {
				for _, i := range m.zonesOf[z] {
					res[i] = true
				}
			}
			m.done, m.ok, m.results = true, true, res
		}
		return
	}
	if lastErr != nil && len(m.failed) > m.spec.MaxErrors {
		m.done, m.err = true, lastErr
		return
	}
	if len(m.succ) >= m.n-m.spec.MaxErrors {
		res := map[int]bool{}
		for i := range m.succ {
			res[i] = true
		}
		m.done, m.ok, m.results = true, true, res
	}
}

type result struct {
	failure    string
	class      string
	nontrivial bool
	heldAcross bool // a finished set's worker was still inside the cleanup callback while another step ran
}

func execute(t *testing.T, sc scenario) (res result) {
	vx.Bubble(t, func(b *vx.B) {
		fail := func(f string, a ...any) {
			if res.failure == "" {
				res.failure = fmt.Sprintf(f, a...)
			}
		}
		// build the replication sets
		var sets []ring.ReplicationSet
		var models []*setModel
		setOf := map[int]int{}
		total := 0
		for si, sp := range sc.Sets {
			var rs ring.ReplicationSet
			models = append(models, newSetModel(sp, total))
			for i, z := range sp.Zones {
				g := total + i
				setOf[g] = si
				rs.Instances = append(rs.Instances, ring.InstanceDesc{Id: fmt.Sprintf("i%d", g), Addr: fmt.Sprintf("a%d", g), Zone: z})
			}
			rs.MaxErrors, rs.MaxUnavailableZones, rs.ZoneAwarenessEnabled = sp.MaxErrors, sp.MaxZones, sp.ZoneAware
			sets = append(sets, rs)
			total += len(sp.Zones)
		}
		var mu sync.Mutex
		parked := map[int]chan struct{}{}
		ctxs := map[int]context.Context{}
		cancels := map[int]context.CancelCauseFunc{}
		calls := map[int]int{}
		cleaned := map[int]int{}
		errsReturned := map[int]error{}
		finished := map[int]bool{}
		cause := errors.New("caller gave up")
		ctx, cancel := context.WithCancelCause(context.Background())
		var results []int
		var resErr error
		returned := false
		idx := func(d *ring.InstanceDesc) int {
			var i int
			fmt.Sscanf(d.Id, "i%d", &i)
			return i
		}
		cfg := ring.DoUntilQuorumConfig{MinimizeRequests: sc.Minimize, IsTerminalError: func(e error) bool { _, ok := e.(termErr); return ok }}
		hasTerminal := false
		for _, o := range sc.Outcomes {
			if o == "terminal" {
				hasTerminal = true
			}
		}
		if !hasTerminal && len(sc.Outcomes)%2 == 0 {
			cfg.IsTerminalError = nil // no classifier configured: no error is terminal
		}
		if sc.Hedge {
			cfg.HedgingDelay = hedgeDelay
		}
		if sc.Sorter {
			cfg.ZoneSorter = func(zs []string) []string { sort.Strings(zs); return zs }
		}
		// the errors the calls will return are fixed up front, so that the model can be advanced before
		// a call is released
		errsPre := map[int]error{}
		for i, o := range sc.Outcomes {
			switch o {
			case "terminal":
				errsPre[i] = termErr{fmt.Sprint("terminal ", i)}
			case "err":
				errsPre[i] = fmt.Errorf("err %d", i)
				if i%2 == 1 {
					// a failure whose cause is a cancellation inside the call (a per-call deadline wrapper, a
					// connection being closed): a failure of that instance like any other
					errsPre[i] = fmt.Errorf("err %d: %w", i, context.Canceled)
				}
			}
		}
		noPark := false // set (under mu) once the step being executed decides the whole execution
		call := func(c context.Context, d *ring.InstanceDesc, cf context.CancelCauseFunc) (int, error) {
			i := idx(d)
			ch := make(chan struct{})
			mu.Lock()
			calls[i]++
			ctxs[i] = c
			if cf != nil {
				cancels[i] = cf
			}
			parked[i] = ch
			mu.Unlock()
			<-ch
			mu.Lock()
			defer mu.Unlock()
			finished[i] = true
			if sc.Outcomes[i] == "ok" {
				return i, nil
			}
			errsReturned[i] = errsPre[i]
			return 0, errsPre[i]
		}
		type heldCleanup struct {
			v  int
			ch chan struct{}
		}
		var heldCleanups []heldCleanup
		cleanup := func(v int) {
			mu.Lock()
			cleaned[v]++
			if !sc.SlowCleanup || noPark {
				mu.Unlock()
				return
			}
			ch := make(chan struct{})
			heldCleanups = append(heldCleanups, heldCleanup{v, ch})
			mu.Unlock()
			<-ch
		}
		// releaseCleanups lets blocked cleanup callbacks return: all of them, or only those of sets that
		// are still undecided in the model (so that their reactions are complete before they are checked)
		releaseCleanups := func(all bool) {
			for k := 0; k < 8*total+8; k++ {
				vx.Wait()
				mu.Lock()
				var chs []chan struct{}
				var keep []heldCleanup
				for _, h := range heldCleanups {
					if si, ok := setOf[h.v]; all || !ok || !models[si].done {
						chs = append(chs, h.ch)
					} else {
						keep = append(keep, h)
					}
				}
				heldCleanups = keep
				held := len(keep)
				mu.Unlock()
				if held > 0 {
					res.heldAcross = true
				}
				if len(chs) == 0 {
					return
				}
				for _, c := range chs {
					close(c)
				}
			}
		}
		releaseAll := func() {
			for k := 0; k < 4*total+4; k++ {
				releaseCleanups(true)
				vx.Wait()
				mu.Lock()
				var chs []chan struct{}
				for key, c := range parked {
					chs = append(chs, c)
					delete(parked, key)
				}
				mu.Unlock()
				if len(chs) == 0 {
					return
				}
				for _, c := range chs {
					close(c)
				}
			}
		}
		b.Cleanup(func() {
			cancel(nil)
			releaseAll()
			mu.Lock()
			for _, cf := range cancels {
				cf(nil)
			}
			mu.Unlock()
			vx.Wait()
		})
		go func() {
			var r []int
			var err error
			switch sc.Variant {
			case "quorum":
				r, err = ring.DoUntilQuorum(ctx, sets[0], cfg, func(c context.Context, d *ring.InstanceDesc) (int, error) { return call(c, d, nil) }, cleanup)
			case "without":
				r, err = ring.DoUntilQuorumWithoutSuccessfulContextCancellation(ctx, sets[0], cfg, call, cleanup)
			default:
				r, err = ring.DoMultiUntilQuorumWithoutSuccessfulContextCancellation(ctx, sets, cfg, call, cleanup)
			}
			mu.Lock()
			results, resErr, returned = r, err, true
			mu.Unlock()
		}()
		vx.Wait()

		// ---- overall model
		overall := struct {
			done, ok bool
			err      error
			isCtx    bool
			invalid  bool
		}{}
		evaluate := func(cancelled bool) {
			if overall.done {
				return
			}
			allOK := true
			for _, m := range models {
				if m.invalid {
					overall.done, overall.invalid = true, true
					return
				}
				if m.done && !m.ok {
					overall.done, overall.err = true, m.err
					return
				}
				if !m.done {
					allOK = false
				}
			}
			if allOK {
				overall.done, overall.ok = true, true
				return
			}
			if cancelled {
				overall.done, overall.err, overall.isCtx = true, cause, true
			}
		}
		wantResults := func() map[int]bool {
			out := map[int]bool{}
			for _, m := range models {
				for i := range m.results {
					out[i] = true
				}
			}
			return out
		}
		checkReturn := func(step int) {
			releaseCleanups(overall.done)
			vx.Wait()
			mu.Lock()
			defer mu.Unlock()
			if overall.done != returned {
				fail("step %d: the model says returned=%v (ok=%v err=%v) but the executor returned=%v (results=%v err=%v)", step, overall.done, overall.ok, overall.err, returned, results, resErr)
				return
			}
			if !returned {
				return
			}
			switch {
			case overall.invalid:
				if resErr == nil || !strings.Contains(resErr.Error(), "invalid ReplicationSet") {
					fail("step %d: MaxErrors > 0 together with zone-awareness must be rejected, got results=%v err=%v", step, results, resErr)
				}
			case overall.ok:
				if resErr != nil {
					fail("step %d: the success criterion holds but an error was returned: %v", step, resErr)
					return
				}
				got := map[int]bool{}
				for _, r := range results {
					if got[r] {
						fail("step %d: result %d returned twice", step, r)
					}
					got[r] = true
					if sc.Outcomes[r] != "ok" {
						fail("step %d: result from failed call %d returned", step, r)
					}
				}
				if fmt.Sprint(got) != fmt.Sprint(wantResults()) {
					fail("step %d: returned results %v, want %v (only calls that succeeded, taken from complete zones in zone-aware mode)", step, keys(got), keys(wantResults()))
				}
			default:
				if resErr != overall.err {
					fail("step %d: returned error %v, want %v", step, resErr, overall.err)
				}
				if len(results) != 0 {
					fail("step %d: results %v returned together with an error", step, results)
				}
			}
		}
		started := func() map[int]bool {
			mu.Lock()
			defer mu.Unlock()
			out := map[int]bool{}
			for i := range calls {
				out[i] = true
			}
			return out
		}
		startedIn := func(m *setModel, st map[int]bool) int {
			c := 0
			for i := range st {
				if i >= m.base && i < m.base+m.n {
					c++
				}
			}
			return c
		}
		for _, m := range models {
			m.decide(nil)
		}
		evaluate(false)
		cancelled := false
		if overall.done {
			mu.Lock()
			noPark = true
			mu.Unlock()
		}
		if sc.CancelAt == -1 && !overall.done {
			mu.Lock()
			noPark = true
			mu.Unlock()
			cancel(cause)
			cancelled = true
			vx.Wait()
			evaluate(true)
		}
		vx.Wait()
		checkReturn(-1)
		// initial start discipline
		if res.failure == "" && !overall.done {
			st := started()
			for _, m := range models {
				if m.done {
					continue
				}
				got := startedIn(m, st)
				switch {
				case !sc.Minimize:
					if got != m.n {
						fail("without minimisation all %d instances of the set must be called at once, %d were", m.n, got)
					}
				case !m.zoneMode:
					if want := m.n - m.spec.MaxErrors; got != want {
						fail("minimisation: %d instances called initially, want exactly n - MaxErrors = %d", got, want)
					}
				case sc.Sorter:
					want := map[int]bool{}
					for _, z := range m.zoneNames[:m.minZones()] {
						for _, i := range m.zonesOf[z] {
							want[i] = true
						}
					}
					gotSet := map[int]bool{}
					for i := range st {
						if i >= m.base && i < m.base+m.n {
							gotSet[i] = true
						}
					}
					if fmt.Sprint(gotSet) != fmt.Sprint(want) {
						fail("minimisation with zone order %v: instances %v called initially, want the instances of the first %d zones: %v", m.zoneNames, keys(gotSet), m.minZones(), keys(want))
					}
				default:
					// random zone choice: exactly minZones whole zones
					zs := map[string]int{}
					for i := range st {
						if i >= m.base && i < m.base+m.n {
							zs[m.spec.Zones[i-m.base]]++
						}
					}
					if len(zs) != m.minZones() {
						fail("minimisation: instances of %d zones called initially, want %d zones", len(zs), m.minZones())
					}
					for z, c := range zs {
						if c != len(m.zonesOf[z]) {
							fail("minimisation: zone %s only partly called (%d of %d)", z, c, len(m.zonesOf[z]))
						}
					}
				}
			}
		}
		step := 0
		splitPending := false
		for !overall.done && res.failure == "" {
			if sc.SplitDelay && sc.Hedge && step == 0 && !sc.HedgeTicks[-1] && sc.HedgeTicks[0] {
				// the first result arrives 6 s into the 10 s hedging delay; the delay counts from the start, so
				// held-back requests still go out at 10 s
				time.Sleep(hedgeDelay * 6 / 10)
				vx.Wait()
				splitPending = true
			}
			if sc.HedgeTicks[step-1] && sc.Hedge {
				before := started()
				wait := hedgeDelay
				if splitPending && step == 1 {
					wait = hedgeDelay * 4 / 10
				}
				time.Sleep(wait)
				vx.Wait()
				after := started()
				if splitPending && step == 1 {
					splitPending = false
					for _, m := range models {
						if !m.done && startedIn(m, before) < m.n && startedIn(m, after) == startedIn(m, before) {
							fail("step %d: a result arrived 6 s into the 10 s hedging delay; at 10 s nothing more was released although %d of %d instances were still held back", step, m.n-startedIn(m, before), m.n)
						}
					}
					res.nontrivial = true
				}
				for _, m := range models {
					d := startedIn(m, after) - startedIn(m, before)
					if !m.zoneMode && d > 1 {
						fail("step %d: one hedging delay released %d more instances at once", step, d)
					}
					if m.zoneMode {
						zs := map[string]bool{}
						for i := range after {
							if !before[i] && i >= m.base && i < m.base+m.n {
								zs[m.spec.Zones[i-m.base]] = true
							}
						}
						if len(zs) > 1 {
							fail("step %d: one hedging delay released %d more zones at once", step, len(zs))
						}
					}
					if d > 0 {
						res.nontrivial = true
					}
				}
			}
			vx.Wait()
			mu.Lock()
			pick := -1
			for _, i := range sc.Prio {
				if _, ok := parked[i]; ok {
					pick = i
					break
				}
			}
			var ch chan struct{}
			if pick >= 0 {
				ch = parked[pick]
				delete(parked, pick)
			}
			mu.Unlock()
			if ch == nil {
				if sc.Hedge {
					// everything started has answered; only the hedging delay can release more
					time.Sleep(hedgeDelay)
					vx.Wait()
					mu.Lock()
					np := len(parked)
					mu.Unlock()
					if np > 0 {
						res.nontrivial = true
						continue
					}
				}
				fail("step %d: no call is pending but the executor has not returned (model: not done)", step)
				break
			}
			before := started()
			m := models[setOf[pick]]
			var lastErr error
			if sc.Outcomes[pick] == "ok" {
				m.succ[pick] = true
			} else {
				m.failed[pick] = true
				lastErr = errsPre[pick]
			}
			m.decide(lastErr)
			evaluate(cancelled)
			if overall.done {
				// the code under test may run the callback under its own lock once everything is decided:
				// a blocked callback would then keep the other workers off that lock for good
				mu.Lock()
				noPark = true
				mu.Unlock()
			}
			close(ch)
			vx.Wait()
			checkReturn(step)
			if !overall.done && sc.Minimize {
				after := started()
				for _, mm := range models {
					d := startedIn(mm, after) - startedIn(mm, before)
					if mm != m || lastErr == nil {
						if d != 0 {
							fail("step %d: %d more calls were started in a set after a success / an event of another set", step, d)
						}
						continue
					}
					if !mm.zoneMode && d > 1 {
						fail("step %d: one failure released %d more instances", step, d)
					}
					if mm.zoneMode {
						zs := map[string]bool{}
						for i := range after {
							if !before[i] && i >= mm.base && i < mm.base+mm.n {
								zs[mm.spec.Zones[i-mm.base]] = true
							}
						}
						if len(zs) > 1 {
							fail("step %d: one failure released %d more zones", step, len(zs))
						}
					}
					if d > 0 {
						res.nontrivial = true
					}
				}
			}
			if step == sc.CancelAt && !overall.done {
				mu.Lock()
				noPark = true
				mu.Unlock()
				cancel(cause)
				cancelled = true
				vx.Wait()
				evaluate(true)
				checkReturn(step)
			}
			step++
		}
		if res.failure != "" {
			return
		}
		// ---- after the return: let every remaining call finish, then check the obligations
		mu.Lock()
		late := len(parked)
		mu.Unlock()
		startedAtReturn := started()
		releaseAll()
		vx.Wait()
		time.Sleep(3 * hedgeDelay) // no call may be started after the return, whatever time passes
		vx.Wait()
		releaseAll()
		vx.Wait()
		mu.Lock()
		defer mu.Unlock()
		if len(calls) != len(startedAtReturn) {
			fail("calls were started after the executor had returned: %d at return, %d later", len(startedAtReturn), len(calls))
		}
		used := map[int]bool{}
		if overall.ok {
			used = wantResults()
		}
		for i, c := range calls {
			if c > 1 {
				fail("instance %d was called %d times", i, c)
			}
			wasOK := sc.Outcomes[i] == "ok"
			switch {
			case wasOK && !used[i] && cleaned[i] != 1:
				fail("successful result %d was not returned and was passed to the cleanup callback %d times (want once); returned=%v", i, cleaned[i], results)
			case (used[i] || !wasOK) && cleaned[i] != 0:
				fail("value %d was passed to the cleanup callback %d times although it was returned / its call failed", i, cleaned[i])
			}
			if (sc.Variant == "quorum" || !used[i]) && ctxs[i].Err() == nil {
				fail("the context of call %d (result unused or executor returned) was never cancelled", i)
			}
			if wasOK && !used[i] && late > 0 {
				res.nontrivial = true
			}
		}
		switch {
		case overall.invalid:
			res.class = "rejected_config"
		case overall.ok:
			res.class = "success"
		case overall.isCtx:
			res.class = "cancelled"
		default:
			res.class = "error"
		}
	})
	return res
}

func keys(m map[int]bool) []int {
	var out []int
	for k := range m {
		out = append(out, k)
	}
	sort.Ints(out)
	return out
}

// ---------------------------------------------------------------------------------------------
// legacy ReplicationSet.Do

func executeLegacy(t *testing.T, sc scenario) (res result) {
	vx.Bubble(t, func(b *vx.B) {
		fail := func(f string, a ...any) {
			if res.failure == "" {
				res.failure = fmt.Sprintf(f, a...)
			}
		}
		sp := sc.Sets[0]
		m := newSetModel(sp, 0)
		m.zoneMode = sp.MaxZones > 0 // Do picks the tracker by MaxUnavailableZones only
		var rs ring.ReplicationSet
		for i, z := range sp.Zones {
			rs.Instances = append(rs.Instances, ring.InstanceDesc{Id: fmt.Sprintf("i%d", i), Addr: fmt.Sprintf("a%d", i), Zone: z})
		}
		rs.MaxErrors, rs.MaxUnavailableZones, rs.ZoneAwarenessEnabled = sp.MaxErrors, sp.MaxZones, sp.ZoneAware
		var mu sync.Mutex
		parked := map[int]chan struct{}{}
		ctxs := map[int]context.Context{}
		calls := map[int]int{}
		errsReturned := map[int]error{}
		ctx, cancel := context.WithCancel(context.Background())
		var results []interface{}
		var resErr error
		returned := false
		delay := time.Duration(0)
		if sc.Delay {
			delay = hedgeDelay
		}
		releaseAll := func() {
			for k := 0; k < 4*m.n+4; k++ {
				vx.Wait()
				mu.Lock()
				var chs []chan struct{}
				for key, c := range parked {
					chs = append(chs, c)
					delete(parked, key)
				}
				mu.Unlock()
				if len(chs) == 0 {
					return
				}
				for _, c := range chs {
					close(c)
				}
			}
		}
		b.Cleanup(func() { cancel(); releaseAll(); vx.Wait() })
		go func() {
			r, err := rs.Do(ctx, delay, func(c context.Context, d *ring.InstanceDesc) (interface{}, error) {
				var i int
				fmt.Sscanf(d.Id, "i%d", &i)
				ch := make(chan struct{})
				mu.Lock()
				calls[i]++
				ctxs[i] = c
				parked[i] = ch
				mu.Unlock()
				<-ch
				mu.Lock()
				defer mu.Unlock()
				if sc.Outcomes[i] == "ok" {
					return i, nil
				}
				e := fmt.Errorf("err %d", i)
				if i%2 == 1 {
					e = fmt.Errorf("err %d: %w", i, context.Canceled)
				}
				errsReturned[i] = e
				return nil, e
			})
			mu.Lock()
			results, resErr, returned = r, err, true
			mu.Unlock()
		}()
		vx.Wait()
		done, ok, cancelledDone := false, false, false
		var wantErr error
		decide := func(lastErr error) {
			if done {
				return
			}
			if m.zoneMode {
				nf, complete := 0, 0
				for _, z := range m.zoneNames {
					if m.zoneFailed(z) {
						nf++
					}
					if m.zoneComplete(z) {
						complete++
					}
				}
				if lastErr != nil && nf > sp.MaxZones {
					done, wantErr = true, lastErr
					return
				}
				if complete >= m.minZones() {
					done, ok = true, true
				}
				return
			}
			if lastErr != nil && len(m.failed) > sp.MaxErrors {
				done, wantErr = true, lastErr
				return
			}
			if len(m.succ) >= m.n-sp.MaxErrors {
				done, ok = true, true
			}
		}
		check := func(step int) {
			mu.Lock()
			defer mu.Unlock()
			if done != returned {
				fail("step %d: model returned=%v (ok=%v) but Do returned=%v (results=%v err=%v)", step, done, ok, returned, results, resErr)
				return
			}
			if !returned {
				return
			}
			switch {
			case ok:
				if resErr != nil {
					fail("step %d: success criterion holds but Do returned %v", step, resErr)
				}
				got := map[int]bool{}
				for _, r := range results {
					i := r.(int)
					if got[i] || !m.succ[i] {
						fail("step %d: result %d duplicated or not from a successful call", step, i)
					}
					got[i] = true
				}
				if len(got) != len(m.succ) {
					fail("step %d: Do returned %d results, %d calls had succeeded", step, len(got), len(m.succ))
				}
			case cancelledDone:
				if !errors.Is(resErr, context.Canceled) {
					fail("step %d: context ended but Do returned %v", step, resErr)
				}
			default:
				if resErr != wantErr {
					fail("step %d: Do returned %v, want %v", step, resErr, wantErr)
				}
			}
		}
		decide(nil)
		check(-1)
		if !done {
			mu.Lock()
			st := len(calls)
			mu.Unlock()
			want := m.n
			if delay > 0 && !m.zoneMode {
				want = m.n - sp.MaxErrors
				if want < 0 {
					want = 0
				}
			}
			if st != want {
				fail("Do started %d calls initially, want %d (delay=%v)", st, want, delay)
			}
		}
		cancelled := false
		step := 0
		for !done && res.failure == "" {
			if sc.HedgeTicks[step-1] && delay > 0 {
				time.Sleep(delay)
				vx.Wait()
				mu.Lock()
				if len(calls) != m.n && !m.zoneMode {
					fail("step %d: after the delay all instances must have been called, %d of %d were", step, len(calls), m.n)
				}
				mu.Unlock()
				res.nontrivial = true
			}
			if sc.CancelAt == step-1 && !cancelled {
				cancel()
				cancelled = true
				vx.Wait()
				done, cancelledDone = true, true
				check(step)
				break
			}
			mu.Lock()
			pick := -1
			for _, i := range sc.Prio {
				if _, okp := parked[i]; okp {
					pick = i
					break
				}
			}
			var ch chan struct{}
			if pick >= 0 {
				ch = parked[pick]
				delete(parked, pick)
			}
			before := len(calls)
			mu.Unlock()
			if ch == nil {
				if delay > 0 {
					time.Sleep(delay)
					vx.Wait()
					mu.Lock()
					np := len(parked)
					mu.Unlock()
					if np > 0 {
						continue
					}
				}
				fail("step %d: nothing pending but Do has not returned", step)
				break
			}
			close(ch)
			vx.Wait()
			var lastErr error
			if sc.Outcomes[pick] == "ok" {
				m.succ[pick] = true
			} else {
				m.failed[pick] = true
				mu.Lock()
				lastErr = errsReturned[pick]
				mu.Unlock()
			}
			decide(lastErr)
			check(step)
			mu.Lock()
			d := len(calls) - before
			mu.Unlock()
			if !done && delay > 0 && !m.zoneMode {
				if lastErr == nil && d != 0 || lastErr != nil && d > 1 {
					fail("step %d: %d delayed requests released by one %s", step, d, map[bool]string{true: "success", false: "failure"}[lastErr == nil])
				}
				if d > 0 {
					res.nontrivial = true
				}
			}
			step++
		}
		if res.failure != "" {
			return
		}
		mu.Lock()
		startedAtReturn := len(calls)
		mu.Unlock()
		releaseAll()
		time.Sleep(3 * hedgeDelay) // no held-back request may be issued after the return, whatever time passes
		vx.Wait()
		releaseAll()
		mu.Lock()
		defer mu.Unlock()
		if len(calls) != startedAtReturn {
			fail("instances were called after Do had returned: %d calls at the return, %d later (delay=%v)", startedAtReturn, len(calls), delay)
		}
		if delay > 0 && startedAtReturn < m.n {
			res.nontrivial = true // requests were still held back when Do returned
		}
		for i, c := range calls {
			if c > 1 {
				fail("instance %d called %d times", i, c)
			}
			if ctxs[i].Err() == nil {
				fail("context of call %d not cancelled after Do returned", i)
			}
		}
		res.class = map[bool]string{true: "success", false: "error"}[ok]
		if cancelledDone {
			res.class = "cancelled"
		}
	})
	return res
}

func run(t *testing.T, sc scenario) result {
	if sc.Variant == "legacy" {
		return executeLegacy(t, sc)
	}
	return execute(t, sc)
}

func genSet(rt *rapid.T, maxN int) setSpec {
	n := rapid.IntRange(1, maxN).Draw(rt, "n")
	nz := rapid.IntRange(1, 4).Draw(rt, "zones")
	var sp setSpec
	for i := 0; i < n; i++ {
		sp.Zones = append(sp.Zones, fmt.Sprintf("z%d", rapid.IntRange(0, nz-1).Draw(rt, "zone")))
	}
	distinct := map[string]bool{}
	for _, z := range sp.Zones {
		distinct[z] = true
	}
	switch rapid.IntRange(0, 9).Draw(rt, "mode") {
	case 0: // invalid combination
		sp.ZoneAware, sp.MaxErrors = true, rapid.IntRange(1, n).Draw(rt, "badMaxErrors")
	case 1, 2, 3, 4:
		sp.ZoneAware = rapid.Bool().Draw(rt, "zoneAwareFlag")
		sp.MaxZones = rapid.IntRange(0, len(distinct)).Draw(rt, "maxZones")
		if !sp.ZoneAware && sp.MaxZones == 0 {
			sp.ZoneAware = true
		}
	default:
		sp.MaxErrors = rapid.IntRange(0, n).Draw(rt, "maxErrors")
	}
	return sp
}

func genScenario(rt *rapid.T) scenario { return genScenarioOf(rt, "") }

func genScenarioOf(rt *rapid.T, variant string) scenario {
	sc := scenario{Variant: variant}
	if variant == "" {
		sc.Variant = rapid.SampledFrom([]string{"quorum", "quorum", "without", "multi", "legacy"}).Draw(rt, "variant")
	}
	nSets := 1
	if sc.Variant == "multi" {
		nSets = rapid.IntRange(2, 3).Draw(rt, "sets")
	}
	total := 0
	for s := 0; s < nSets; s++ {
		sp := genSet(rt, map[bool]int{true: 4, false: 6}[nSets > 1])
		sc.Sets = append(sc.Sets, sp)
		total += len(sp.Zones)
	}
	if sc.Variant == "legacy" {
		sc.Sets[0].ZoneAware = false
		if sc.Sets[0].MaxZones > 0 {
			sc.Sets[0].MaxErrors = 0
		}
		sc.Delay = rapid.Bool().Draw(rt, "delay")
	} else {
		sc.Minimize = rapid.Bool().Draw(rt, "minimize")
		sc.Hedge = sc.Minimize && rapid.Bool().Draw(rt, "hedge")
		sc.Sorter = rapid.Bool().Draw(rt, "sorter")
		sc.SplitDelay = sc.Hedge && rapid.Bool().Draw(rt, "splitDelay")
		sc.SlowCleanup = rapid.Bool().Draw(rt, "slowCleanup") || (variant == "multi" && rapid.Bool().Draw(rt, "slowCleanup2"))
	}
	for i := 0; i < total; i++ {
		o := rapid.SampledFrom([]string{"ok", "ok", "ok", "ok", "err", "err", "terminal"}).Draw(rt, "outcome")
		if sc.Variant == "legacy" && o == "terminal" {
			o = "err"
		}
		sc.Outcomes = append(sc.Outcomes, o)
	}
	idxs := make([]int, total)
	for i := range idxs {
		idxs[i] = i
	}
	sc.Prio = rapid.Permutation(idxs).Draw(rt, "order")
	sc.CancelAt = 99
	if rapid.IntRange(0, 2).Draw(rt, "cancel") == 0 {
		sc.CancelAt = rapid.IntRange(-1, total).Draw(rt, "cancelAt")
	}
	sc.HedgeTicks = map[int]bool{}
	if sc.Hedge || sc.Delay {
		for s := -1; s < total; s++ {
			if rapid.IntRange(0, 3).Draw(rt, "tick") == 0 {
				sc.HedgeTicks[s] = true
			}
		}
	}
	if sc.SplitDelay {
		sc.HedgeTicks[-1], sc.HedgeTicks[0] = false, true
	}
	return sc
}

// TestMultiSetsRapid: the multi-set executor only, mostly with blocking cleanup callbacks, so that one
// set is still inside its last cleanup when another set decides the outcome.
func TestMultiSetsRapid(t *testing.T) { quorumRapid(t, "multi") }

func TestQuorumRapid(t *testing.T) { quorumRapid(t, "") }

func quorumRapid(t *testing.T, variant string) {
	rapid.Check(t, func(rt *rapid.T) {
		sc := genScenarioOf(rt, variant)
		res := run(t, sc)
		vx.Eval(1)
		vx.Class("variant_"+sc.Variant, 1)
		vx.Class("outcome_"+res.class, 1)
		if res.heldAcross {
			vx.Class("finished_set_still_in_cleanup_while_another_set_ran", 1)
			res.nontrivial = true
		}
		if res.nontrivial {
			vx.NonTrivial(vx.FP(sc.String()))
		}
		if res.failure != "" {
			rt.Fatalf("%s\n%s", res.failure, sc)
		}
		if vx.WantSample("quorum_execution_"+sc.Variant) && res.nontrivial {
			vx.Sample("quorum_execution_"+sc.Variant, map[string]any{"scenario": sc.String(), "result": res.class})
		}
	})
}

func perms(xs []int) [][]int {
	if len(xs) <= 1 {
		return [][]int{append([]int{}, xs...)}
	}
	var out [][]int
	for i := range xs {
		rest := append(append([]int{}, xs[:i]...), xs[i+1:]...)
		for _, p := range perms(rest) {
			out = append(out, append([]int{xs[i]}, p...))
		}
	}
	return out
}

// TestQuorumExhaustive: fixed sets of <= 4 instances: every tolerance x every outcome assignment x
// every completion order x every cancel point, for the quorum executors.
func TestQuorumExhaustive(t *testing.T) {
	var rc scenario
	if vx.ReplayCase("TestQuorumExhaustive", &rc) {
		if res := run(t, rc); res.failure != "" {
			t.Fatalf("replay: %s\n%s", res.failure, rc)
		}
		return
	}
	shapes := [][]string{{"a"}, {"a", "b"}, {"a", "a", "b"}, {"a", "b", "c"}, {"a", "a", "b", "b"}}
	if vx.Thorough() {
		shapes = append(shapes, []string{"a", "b", "c", "c"}, []string{"a", "b", "c", "d"}, []string{"a", "a", "a", "b"})
	}
	idx := 0
	for _, zones := range shapes {
		n := len(zones)
		dz := map[string]bool{}
		for _, z := range zones {
			dz[z] = true
		}
		var specs []setSpec
		for me := 0; me <= n; me++ {
			specs = append(specs, setSpec{Zones: zones, MaxErrors: me})
		}
		for mz := 0; mz <= len(dz); mz++ {
			specs = append(specs, setSpec{Zones: zones, MaxZones: mz, ZoneAware: true})
		}
		idxs := make([]int, n)
		for i := range idxs {
			idxs[i] = i
		}
		orders := perms(idxs)
		total := 1
		for i := 0; i < n; i++ {
			total *= 3
		}
		for _, sp := range specs {
			for code := 0; code < total; code++ {
				var out []string
				c := code
				for i := 0; i < n; i++ {
					out = append(out, []string{"ok", "err", "terminal"}[c%3])
					c /= 3
				}
				for _, p := range orders {
					for cancelAt := -1; cancelAt <= n; cancelAt++ {
						idx++
						if !vx.Mine(idx) {
							continue
						}
						ca := cancelAt
						if ca == n {
							ca = 99
						}
						sc := scenario{Variant: []string{"quorum", "without"}[idx%2], Sets: []setSpec{sp}, Minimize: idx%3 == 0, Sorter: idx%2 == 0, Outcomes: out, Prio: p, CancelAt: ca, HedgeTicks: map[int]bool{}}
						if sc.Minimize && idx%4 == 0 {
							sc.Hedge = true
							sc.HedgeTicks[idx%n-1] = true
						}
						res := run(t, sc)
						vx.Eval(1)
						vx.Class("outcome_"+res.class, 1)
						if res.nontrivial {
							vx.NonTrivial(vx.FP("ex", fmt.Sprint(sp), code, fmt.Sprint(p), cancelAt, idx%12))
						}
						if res.failure != "" {
							vx.Failf(t, "TestQuorumExhaustive", sc, "%s\n%s", res.failure, sc)
						}
					}
				}
			}
		}
	}
	vx.Exhaustive(fmt.Sprintf("%d zone shapes of <= 4 instances x every tolerance value x every assignment of {ok, error, terminal error} x every completion order x every cancellation point", len(shapes)))
}
