// Package c09: a lifecycler recovers its identity after a crash at any point or KV faults.
package c09

import (
	"context"
	"fmt"
	"os"
	"os/exec"
	"path/filepath"
	"sort"
	"strconv"
	"strings"
	"syscall"
	"testing"
	"time"

	"github.com/go-kit/log"
	"pgregory.net/rapid"

	"github.com/grafana/dskit/kv"
	"github.com/grafana/dskit/kv/consul"
	"github.com/grafana/dskit/ring"
	"github.com/grafana/dskit/services"

	"verifharness/internal/fakekv"
	"verifharness/internal/lcx"
	"verifharness/internal/vx"
)

func TestMain(m *testing.M) {
	if os.Getenv("VERIF_C09_CHILD") != "" {
		childStoreTokens()
		return
	}
	vx.Rule("a crash point is non-trivial when the ring entry left behind by the dead process is in an intermediate state (absent, without tokens, JOINING or LEAVING); store faults: a window that overlaps a heartbeat, or a wipe; tokens file: a write cut strictly inside the encoded list; distinct = distinct (scenario, configuration, crash point / window / offset)")
	vx.Assume("a crash is modelled at store-write granularity: the process (actor goroutine and application goroutine) is parked forever inside the k-th write, before or after its commit; crashes between two in-memory statements have no durable effect and equal the previous boundary")
	vx.Assume("the new incarnation uses the same id, configuration and tokens path on the same store; virtual clock")
	vx.Assume("basic lifecycler with register state JOINING: the application (harness) requests ACTIVE once the lifecycler runs, as its delegate contract expects")
	vx.Main(m)
}

type act struct {
	Kind  string
	Dur   time.Duration
	State ring.InstanceState
}

type scenario struct {
	Name     string
	Cfg      lcx.Cfg
	PreFile  []uint32 // tokens file content before the first start
	PreOld   bool     // a LEAVING instance "old" with tokens waits to hand them over
	Life     []act
	LifeSpan time.Duration
	// the restarted process is configured with this many tokens (0 = unchanged): the entry it finds holds fewer
	RestartTokens int
	// tokens of the instance "other" (default staticTokens); dense, so that a generator handed a wrong
	// taken list collides at once
	OtherTokens []uint32
}

func (sc scenario) otherTokens() []uint32 {
	if len(sc.OtherTokens) > 0 {
		return sc.OtherTokens
	}
	return staticTokens
}

var staticTokens = []uint32{1, 2, 3, 4}
var oldTokens = []uint32{20, 21, 22, 23}

func entry(store kv.Client, id string) (ring.InstanceDesc, bool) {
	v, _ := store.Get(context.Background(), lcx.RingKey)
	d, _ := v.(*ring.Desc)
	if d == nil {
		return ring.InstanceDesc{}, false
	}
	e, ok := d.Ingesters[id]
	if ok {
		e.Tokens = append([]uint32{}, e.Tokens...)
	}
	return e, ok
}

// app plays the application around a lifecycler: it dies with the process.
func app(l *lcx.LC, life []act) {
	ctx := context.Background()
	_ = l.Svc.StartAsync(ctx)
	if l.Basic != nil {
		if err := l.Svc.AwaitRunning(ctx); err != nil {
			return
		}
		if l.Basic.GetState() == ring.JOINING {
			_ = l.Basic.ChangeState(ctx, ring.ACTIVE)
		}
	}
	for _, a := range life {
		switch a.Kind {
		case "sleep":
			time.Sleep(a.Dur)
		case "stop":
			l.Svc.StopAsync()
		case "state":
			if l.Full != nil {
				_ = l.Full.ChangeState(ctx, a.State)
			} else {
				_ = l.Basic.ChangeState(ctx, a.State)
			}
		case "claim":
			if l.Full != nil {
				_ = l.Full.ClaimTokensFor(ctx, "old")
			}
		}
	}
}

type outcome struct {
	writes     int
	crashed    bool
	failure    string
	nontrivial bool
	left       string
}

func subset(small, big []uint32) bool {
	m := map[uint32]bool{}
	for _, t := range big {
		m[t] = true
	}
	for _, t := range small {
		if !m[t] {
			return false
		}
	}
	return true
}

// run executes the scenario with a crash inside the k-th write (k = 0: no crash), then restarts.
func run(t *testing.T, sc scenario, crashAt int, after bool) (out outcome) {
	dir, err := os.MkdirTemp("", "c09")
	if err != nil {
		out.failure = err.Error()
		return
	}
	defer os.RemoveAll(dir)
	cfg := sc.Cfg
	if cfg.TokensPath != "" {
		cfg.TokensPath = filepath.Join(dir, "tokens")
		if len(sc.PreFile) > 0 {
			if err := ring.Tokens(sc.PreFile).StoreToFile(cfg.TokensPath); err != nil {
				out.failure = err.Error()
				return
			}
		}
	}
	vx.Bubble(t, func(b *vx.B) {
		store, closer := consul.NewInMemoryClient(ring.GetCodec(), log.NewNopLogger(), nil)
		b.Cleanup(func() { _ = closer.Close() })
		ctx := context.Background()
		_ = store.CAS(ctx, lcx.RingKey, func(interface{}) (interface{}, bool, error) {
			d := ring.NewDesc()
			d.AddIngester("other", "other:1", "z", sc.otherTokens(), ring.ACTIVE, time.Now(), false, time.Time{}, nil)
			if sc.PreOld {
				d.AddIngester("old", "old:1", "z", oldTokens, ring.LEAVING, time.Now(), false, time.Time{}, nil)
			}
			return d, true, nil
		})
		f := fakekv.NewFaulty(store)
		f.CrashAt, f.After = crashAt, after
		l1, err := lcx.New(cfg, f)
		if err != nil {
			out.failure = fmt.Sprintf("building the lifecycler: %v", err)
			return
		}
		var l2 *lcx.LC
		b.Cleanup(func() {
			f.Release()
			l1.Svc.StopAsync()
			if l2 != nil {
				l2.Svc.StopAsync()
			}
			time.Sleep(30 * time.Second)
		})
		go app(l1, sc.Life)
		time.Sleep(sc.LifeSpan)
		vx.Wait()
		out.writes, out.crashed = f.Writes(), f.Crashed()
		if crashAt > 0 && !out.crashed {
			return // the scenario has fewer writes than that
		}
		if crashAt == 0 {
			return
		}
		left, leftOK := entry(store, cfg.ID)
		var fileTokens ring.Tokens
		if cfg.TokensPath != "" {
			fileTokens, _ = ring.LoadTokensFromFile(cfg.TokensPath)
		}
		out.left = fmt.Sprintf("entry=%v state=%v tokens=%v reg=%d file=%v", leftOK, left.State, left.Tokens, left.RegisteredTimestamp, fileTokens)
		out.nontrivial = !leftOK || len(left.Tokens) == 0 || left.State == ring.JOINING || left.State == ring.LEAVING
		time.Sleep(3 * time.Second)
		// ---- the new incarnation
		if sc.RestartTokens > 0 {
			cfg.NumTokens = sc.RestartTokens
		}
		l2, err = lcx.New(cfg, store)
		if err != nil {
			out.failure = fmt.Sprintf("building the new incarnation: %v", err)
			return
		}
		started := make(chan error, 1)
		go func() {
			err := services.StartAndAwaitRunning(ctx, l2.Svc)
			if err == nil && l2.Basic != nil && l2.Basic.GetState() == ring.JOINING {
				err = l2.Basic.ChangeState(ctx, ring.ACTIVE)
			}
			started <- err
		}()
		time.Sleep(100 * time.Millisecond)
		vx.Wait()
		if l2.Full != nil && leftOK && left.State == ring.JOINING && cfg.JoinAfter > time.Second {
			if st := l2.Full.GetState(); st != ring.PENDING {
				out.failure = fmt.Sprintf("the dead process left the entry JOINING; the new incarnation must restart joining from PENDING but is %v right after its start", st)
				return
			}
		}
		time.Sleep(90 * time.Second)
		vx.Wait()
		select {
		case err := <-started:
			if err != nil {
				out.failure = fmt.Sprintf("the new incarnation failed to start: %v", err)
				return
			}
		default:
			out.failure = "the new incarnation did not finish starting within 90 s"
			return
		}
		final, ok := entry(store, cfg.ID)
		switch {
		case !ok:
			out.failure = "after the restart the instance has no ring entry"
		case final.State != ring.ACTIVE || l2.State() != ring.ACTIVE:
			out.failure = fmt.Sprintf("after the restart the instance is %v in the ring and %v locally, not ACTIVE", final.State, l2.State())
		case sc.RestartTokens == 0 && len(final.Tokens) != cfg.NumTokens:
			out.failure = fmt.Sprintf("after the restart the instance holds %d tokens %v, configured %d", len(final.Tokens), final.Tokens, cfg.NumTokens)
		case sc.RestartTokens > 0 && (len(final.Tokens) > cfg.NumTokens || len(final.Tokens) < len(left.Tokens)):
			// whether a grown token count is topped up depends on the state of the entry found (the statement
			// speaks of restarts with the same configuration): only keeping and not colliding are asserted
			out.failure = fmt.Sprintf("after the restart the instance holds %d tokens %v; the entry held %d, configured now %d", len(final.Tokens), final.Tokens, len(left.Tokens), cfg.NumTokens)
		case !sort.SliceIsSorted(final.Tokens, func(a, b int) bool { return final.Tokens[a] < final.Tokens[b] }):
			out.failure = fmt.Sprintf("tokens not sorted: %v", final.Tokens)
		}
		if out.failure != "" {
			return
		}
		for i := 1; i < len(final.Tokens); i++ {
			if final.Tokens[i] == final.Tokens[i-1] {
				out.failure = fmt.Sprintf("duplicate token in %v", final.Tokens)
				return
			}
		}
		for _, tk := range final.Tokens {
			for _, st := range sc.otherTokens() {
				if tk == st {
					out.failure = fmt.Sprintf("after the restart the instance holds token %d of instance 'other'", tk)
					return
				}
			}
		}
		if leftOK {
			if len(left.Tokens) > 0 && len(left.Tokens) <= cfg.NumTokens && !subset(left.Tokens, final.Tokens) {
				out.failure = fmt.Sprintf("the ring recorded tokens %v for the instance, after the restart it holds %v", left.Tokens, final.Tokens)
				return
			}
			if final.RegisteredTimestamp != left.RegisteredTimestamp {
				out.failure = fmt.Sprintf("registration time changed across the restart: %d -> %d (the entry existed)", left.RegisteredTimestamp, final.RegisteredTimestamp)
				return
			}
		} else if len(fileTokens) > 0 && len(fileTokens) <= cfg.NumTokens && !subset(fileTokens, final.Tokens) {
			out.failure = fmt.Sprintf("no ring entry but the tokens file recorded %v; after the restart the instance holds %v", fileTokens, final.Tokens)
			return
		}
	})
	return out
}

func scenarios(full lcx.Cfg, basic lcx.Cfg) []scenario {
	var out []scenario
	s := func(d time.Duration) act { return act{Kind: "sleep", Dur: d} }
	for _, base := range []lcx.Cfg{full, basic} {
		kind := "full"
		if base.Basic {
			kind = "basic"
		}
		c := base
		c.Observe, c.TokensPath = 0, ""
		out = append(out, scenario{Name: kind + "/fresh-join", Cfg: c, Life: []act{s(12 * time.Second)}, LifeSpan: 14 * time.Second})
		c = base
		c.Observe, c.TokensPath = 3*time.Second, ""
		out = append(out, scenario{Name: kind + "/join-with-observe", Cfg: c, Life: []act{s(14 * time.Second)}, LifeSpan: 16 * time.Second})
		c = base
		c.TokensPath = "x"
		out = append(out, scenario{Name: kind + "/restart-from-tokens-file", Cfg: c, PreFile: []uint32{12, 9, 16, 10, 11, 14, 15, 13}[:c.NumTokens] /* unsorted, as older versions wrote them */, Life: []act{s(9 * time.Second)}, LifeSpan: 11 * time.Second})
		c = base
		c.Unregister, c.TokensPath = false, "x"
		out = append(out, scenario{Name: kind + "/leave-keeping-entry", Cfg: c, Life: []act{s(9 * time.Second), {Kind: "stop"}, s(8 * time.Second)}, LifeSpan: 19 * time.Second})
		c = base
		c.Unregister, c.TokensPath = true, "x"
		out = append(out, scenario{Name: kind + "/leave-unregistering", Cfg: c, Life: []act{s(9 * time.Second), {Kind: "stop"}, s(8 * time.Second)}, LifeSpan: 19 * time.Second})
		// the configured token count grows across the restart: the missing tokens are generated against
		// everything the ring holds ("other" holds 20 of the 32 tokens of the generator's space)
		c = base
		c.Unregister, c.TokensPath = false, ""
		var dense []uint32
		for tk := uint32(0); tk < 32; tk++ {
			if tk%8 < 5 {
				dense = append(dense, tk)
			}
		}
		out = append(out, scenario{Name: kind + "/restart-with-more-tokens", Cfg: c, OtherTokens: dense, RestartTokens: c.NumTokens + 3, Life: []act{s(9 * time.Second), {Kind: "stop"}, s(8 * time.Second)}, LifeSpan: 19 * time.Second})
		// ... and the same from a tokens file alone: the entry was unregistered, the file holds fewer tokens
		// than the restarted process is configured with
		// (full lifecycler only: the basic lifecycler's register delegate tops up against the tokens in the
		// ring, which do not include the ones just loaded from the file, so with the harness's 32-token
		// generator space it re-draws them; with a 2^32 space that is a non-event, and a changed
		// configuration is outside the statement anyway)
		c = base
		c.Unregister, c.TokensPath = true, "x"
		if !base.Basic {
			out = append(out, scenario{Name: kind + "/restart-from-file-with-more-tokens", Cfg: c, OtherTokens: dense, RestartTokens: c.NumTokens + 3, Life: []act{s(9 * time.Second), {Kind: "stop"}, s(8 * time.Second)}, LifeSpan: 19 * time.Second})
		}
		if !base.Basic {
			c = base
			c.JoinAfter, c.TokensPath = 20*time.Second, ""
			c.NumTokens = len(oldTokens)
			out = append(out, scenario{Name: kind + "/token-claim", Cfg: c, PreOld: true, Life: []act{s(time.Second), {Kind: "state", State: ring.JOINING}, s(time.Second), {Kind: "claim"}, s(time.Second), {Kind: "state", State: ring.ACTIVE}, s(7 * time.Second)}, LifeSpan: 12 * time.Second})
		}
	}
	return out
}

func enumerate(t *testing.T, sc scenario, record func(o outcome, k int, after bool)) {
	base := run(t, sc, 0, false)
	if base.failure != "" {
		t.Fatalf("%s: baseline run failed: %s", sc.Name, base.failure)
	}
	for k := 1; k <= base.writes; k++ {
		for _, after := range []bool{false, true} {
			o := run(t, sc, k, after)
			record(o, k, after)
		}
	}
}

func TestCrashPointsEnum(t *testing.T) {
	full := lcx.Cfg{ID: "ing-1", NumTokens: 4, JoinAfter: 2 * time.Second, HBPeriod: 5 * time.Second, GenSeed: 3, GenSpace: 32, FinalSleep: 6 * time.Second}
	basic := lcx.Cfg{ID: "ing-1", Basic: true, NumTokens: 4, HBPeriod: 5 * time.Second, GenSeed: 3, GenSpace: 32, RegState: ring.JOINING}
	idx := 0
	for _, sc := range scenarios(full, basic) {
		idx++
		if !vx.Mine(idx) {
			continue
		}
		sc := sc
		points := 0
		enumerate(t, sc, func(o outcome, k int, after bool) {
			if !o.crashed {
				return
			}
			points++
			vx.Eval(1)
			if o.nontrivial {
				vx.NonTrivial(vx.FP(sc.Name, k, after))
			}
			if o.failure != "" {
				vx.Failf(t, "TestCrashPointsEnum", map[string]any{"scenario": sc.Name, "crash_at_write": k, "after_commit": after}, "%s: crash %s the commit of write %d: %s\nleft behind: %s\nconfig: %v", sc.Name, map[bool]string{true: "after", false: "before"}[after], k, o.failure, o.left, sc.Cfg)
			}
		})
		vx.Note("%s: %d crash points", sc.Name, points)
		vx.Sample("crash_scenario", map[string]any{"scenario": sc.Name, "crash_points": points, "config": sc.Cfg.String()})
	}
	vx.Exhaustive("every store write (before and after its commit) of the scenarios {fresh join, join with observe period, restart from tokens file, leave keeping the entry, leave unregistering, restart configured with more tokens than the entry / the tokens file holds} x {full, basic lifecycler} and the token claim of the full lifecycler, one configuration per kind")
}

// TestCrashPointsRapid: generated configurations; for each, every crash point of a drawn scenario.
func TestCrashPointsRapid(t *testing.T) {
	rapid.Check(t, func(rt *rapid.T) {
		full := lcx.Cfg{ID: "ing-1", NumTokens: rapid.IntRange(1, 8).Draw(rt, "numTokens"),
			JoinAfter: rapid.SampledFrom([]time.Duration{0, time.Second, 4 * time.Second}).Draw(rt, "joinAfter"),
			HBPeriod:  rapid.SampledFrom([]time.Duration{time.Second, 3 * time.Second, 5 * time.Second}).Draw(rt, "heartbeat"),
			GenSeed:   uint32(rapid.IntRange(0, 31).Draw(rt, "genSeed")), GenSpace: 32,
			FinalSleep: rapid.SampledFrom([]time.Duration{0, 4 * time.Second}).Draw(rt, "finalSleep")}
		basic := full
		basic.Basic, basic.JoinAfter, basic.FinalSleep = true, 0, 0
		basic.RegState = rapid.SampledFrom([]ring.InstanceState{ring.ACTIVE, ring.JOINING}).Draw(rt, "registerState")
		scs := scenarios(full, basic)
		sc := scs[rapid.IntRange(0, len(scs)-1).Draw(rt, "scenario")]
		if sc.Cfg.Observe > 0 {
			sc.Cfg.Observe = rapid.SampledFrom([]time.Duration{time.Second, 3 * time.Second}).Draw(rt, "observe")
		}
		enumerate(t, sc, func(o outcome, k int, after bool) {
			if !o.crashed {
				return
			}
			vx.Eval(1)
			if o.nontrivial {
				vx.NonTrivial(vx.FP(sc.Name, sc.Cfg.String(), k, after))
			}
			if o.failure != "" {
				rt.Fatalf("%s: crash %s the commit of write %d: %s\nleft behind: %s\nconfig: %v", sc.Name, map[bool]string{true: "after", false: "before"}[after], k, o.failure, o.left, sc.Cfg)
			}
		})
	})
}

// ---------------------------------------------------------------------------------------------
// store faults on a running lifecycler

func TestStoreFaultsEnum(t *testing.T) {
	idx := 0
	for _, kind := range []string{"full", "basic", "basic-joining-first"} {
		basicKind := kind != "full"
		for _, wipe := range []string{"none", "at-window-start", "while-leaving", "own-entry-only"} {
			if wipe == "while-leaving" && basicKind {
				continue // the basic lifecycler has no leaving phase of its own
			}
			for a := 1; a <= 3; a++ {
				for w := 0; w <= 4; w++ {
					idx++
					if !vx.Mine(idx) {
						continue
					}
					if wipe == "none" && w == 0 {
						continue
					}
					failure := storeFault(t, basicKind, kind == "basic-joining-first", wipe, a, w)
					vx.Eval(1)
					vx.NonTrivial(vx.FP("fault", kind, wipe, a, w))
					if failure != "" {
						vx.Failf(t, "TestStoreFaultsEnum", map[string]any{"kind": kind, "wipe": wipe, "first_failing_call": a, "failing_calls": w}, "%s wipe=%s failing calls [%d,%d): %s", kind, wipe, a, a+w, failure)
					}
				}
			}
		}
	}
	vx.Exhaustive("store faults: {full, basic registering as active, basic registering as joining and made active by its owner} x {no wipe, whole ring key wiped when the window opens, wiped while leaving, only the instance's own entry lost (another member stays)} x windows of 0..4 failing store calls starting at the 1st..3rd call after the lifecycler is active")
}

func storeFault(t *testing.T, basicKind, joiningFirst bool, wipe string, a, w int) (failure string) {
	vx.Bubble(t, func(b *vx.B) {
		store, closer := consul.NewInMemoryClient(ring.GetCodec(), log.NewNopLogger(), nil)
		b.Cleanup(func() { _ = closer.Close() })
		ctx := context.Background()
		// another member that stays in the ring throughout
		_ = store.CAS(ctx, lcx.RingKey, func(interface{}) (interface{}, bool, error) {
			d := ring.NewDesc()
			d.AddIngester("other", "other:1", "z", []uint32{28, 29, 30, 31}, ring.ACTIVE, time.Now(), false, time.Time{}, nil)
			return d, true, nil
		})
		f := fakekv.NewFaulty(store)
		hb := 4 * time.Second
		cfg := lcx.Cfg{ID: "ing-1", Basic: basicKind, NumTokens: 4, JoinAfter: time.Second, HBPeriod: hb, GenSeed: 5, GenSpace: 32, RegState: ring.ACTIVE, FinalSleep: 30 * time.Second, Unregister: false}
		if joiningFirst {
			// the usual pattern: the delegate registers the instance as joining and its owner switches it to
			// active once it is ready; what the lifecycler remembers from then on is active
			cfg.RegState = ring.JOINING
		}
		l, err := lcx.New(cfg, f)
		if err != nil {
			failure = err.Error()
			return
		}
		b.Cleanup(func() { l.Svc.StopAsync(); time.Sleep(40 * time.Second) })
		if err := services.StartAndAwaitRunning(ctx, l.Svc); err != nil {
			failure = err.Error()
			return
		}
		if joiningFirst {
			if err := l.Basic.ChangeState(ctx, ring.ACTIVE); err != nil {
				failure = fmt.Sprintf("ChangeState(ACTIVE): %v", err)
				return
			}
		}
		time.Sleep(3 * time.Second)
		vx.Wait()
		before, ok := entry(store, "ing-1")
		if !ok || before.State != ring.ACTIVE || len(before.Tokens) != 4 {
			failure = fmt.Sprintf("setup: instance not active: %+v", before)
			return
		}
		wantState := ring.ACTIVE
		if wipe == "while-leaving" {
			l.Svc.StopAsync()
			time.Sleep(time.Second)
			vx.Wait()
			wantState = ring.LEAVING
		}
		calls := f.Calls()
		f.FailFrom, f.FailTo = calls+a, calls+a+w
		wipedAt := time.Time{}
		if wipe != "none" {
			// advance to the moment the window opens, then lose the ring
			for f.Calls() < calls+a-1 {
				time.Sleep(500 * time.Millisecond)
				vx.Wait()
			}
			if wipe == "own-entry-only" {
				// the ring keeps its other member; only this instance's entry is lost (forgotten by somebody)
				err = store.CAS(ctx, lcx.RingKey, func(v interface{}) (interface{}, bool, error) {
					d := ring.GetOrCreateRingDesc(v)
					delete(d.Ingesters, "ing-1")
					return d, true, nil
				})
			} else {
				err = store.Delete(ctx, lcx.RingKey)
			}
			if err != nil {
				failure = fmt.Sprintf("wipe: %v", err)
				return
			}
			wipedAt = time.Now()
		}
		// wait until the window has closed (all failing calls consumed)
		deadline := time.Now().Add(time.Duration(a+w+2) * hb)
		for f.Calls() < calls+a+w-1 && time.Now().Before(deadline) {
			time.Sleep(500 * time.Millisecond)
			vx.Wait()
		}
		if f.Calls() < calls+a+w-1 {
			failure = fmt.Sprintf("the lifecycler stopped calling the store: %d calls since the window was armed, window ends after %d", f.Calls()-calls, a+w-1)
			return
		}
		// "at a later heartbeat": within one heartbeat period (+1 s) after the store accepts writes again
		time.Sleep(hb + time.Second)
		vx.Wait()
		after, ok := entry(store, "ing-1")
		if !ok {
			failure = fmt.Sprintf("one heartbeat period after the store recovered the instance has no ring entry (wiped at %v)", wipedAt.Format("15:04:05"))
			return
		}
		if after.State != wantState || fmt.Sprint(after.Tokens) != fmt.Sprint(before.Tokens) {
			failure = fmt.Sprintf("after the store recovered the entry is %v with tokens %v, remembered %v with tokens %v", after.State, after.Tokens, wantState, before.Tokens)
			return
		}
		if wipe != "none" && after.RegisteredTimestamp < wipedAt.Unix() {
			failure = fmt.Sprintf("after the ring was lost the instance re-registered with the old registration time %d (ring lost at %d)", after.RegisteredTimestamp, wipedAt.Unix())
			return
		}
		if wipe == "none" && after.RegisteredTimestamp != before.RegisteredTimestamp {
			failure = fmt.Sprintf("registration time changed %d -> %d although the entry was never lost", before.RegisteredTimestamp, after.RegisteredTimestamp)
		}
	})
	return failure
}

// ---------------------------------------------------------------------------------------------
// tokens file: a write interrupted at any byte never leaves a corrupt file behind

func childStoreTokens() {
	limit, _ := strconv.ParseUint(os.Getenv("VERIF_C09_LIMIT"), 10, 64)
	_ = syscall.Setrlimit(syscall.RLIMIT_FSIZE, &syscall.Rlimit{Cur: limit, Max: limit})
	var toks ring.Tokens
	for _, s := range strings.Split(os.Getenv("VERIF_C09_TOKENS"), ",") {
		v, _ := strconv.ParseUint(s, 10, 32)
		toks = append(toks, uint32(v))
	}
	err := toks.StoreToFile(os.Getenv("VERIF_C09_CHILD"))
	if err != nil {
		fmt.Println("child: StoreToFile:", err)
		os.Exit(3)
	}
	os.Exit(0)
}

func TestTokensFileCuts(t *testing.T) {
	oldT := ring.Tokens{5, 6, 7, 1000000}
	newT := ring.Tokens{11, 22, 33, 44, 4000000000, 4294967295}
	encoded, _ := newT.Marshal()
	dir := t.TempDir()
	path := filepath.Join(dir, "tokens")
	step := vx.Pick(3, 1)
	var strs []string
	for _, x := range newT {
		strs = append(strs, strconv.FormatUint(uint64(x), 10))
	}
	exe, err := os.Executable()
	if err != nil {
		t.Fatalf("%v", err)
	}
	check := func(what string) {
		got, err := ring.LoadTokensFromFile(path)
		if err != nil {
			t.Fatalf("%s: the tokens file is corrupt: %v", what, err)
		}
		if fmt.Sprint(got) != fmt.Sprint(oldT) && fmt.Sprint(got) != fmt.Sprint(newT) {
			t.Fatalf("%s: the tokens file holds %v, neither the old list %v nor the new one %v", what, got, oldT, newT)
		}
	}
	for n := 0; n <= len(encoded)+1; n += step {
		_ = os.Remove(path + ".tmp")
		if err := oldT.StoreToFile(path); err != nil {
			t.Fatalf("%v", err)
		}
		cmd := exec.Command(exe, "-test.run", "^$")
		cmd.Env = append(os.Environ(), "VERIF_C09_CHILD="+path, "VERIF_C09_LIMIT="+strconv.Itoa(n), "VERIF_C09_TOKENS="+strings.Join(strs, ","))
		outb, err := cmd.CombinedOutput()
		vx.Eval(1)
		if n > 0 && n < len(encoded) {
			vx.NonTrivial(vx.FP("cut", n))
			if err == nil {
				t.Fatalf("harness: write limited to %d of %d bytes succeeded: %s", n, len(encoded), outb)
			}
		}
		check(fmt.Sprintf("write cut after %d of %d bytes", n, len(encoded)))
	}
	// a complete temporary file that was never renamed
	_ = oldT.StoreToFile(path)
	_ = os.WriteFile(path+".tmp", encoded, 0o644)
	vx.Eval(1)
	check("complete temporary file, not renamed")
	// a lifecycler started on that directory uses the file's list
	var failure string
	vx.Bubble(t, func(b *vx.B) {
		store, closer := consul.NewInMemoryClient(ring.GetCodec(), log.NewNopLogger(), nil)
		b.Cleanup(func() { _ = closer.Close() })
		l, err := lcx.New(lcx.Cfg{ID: "ing-1", NumTokens: 4, JoinAfter: time.Second, HBPeriod: 5 * time.Second, TokensPath: path, GenSpace: 32}, store)
		if err != nil {
			failure = err.Error()
			return
		}
		b.Cleanup(func() { l.Svc.StopAsync(); time.Sleep(5 * time.Second) })
		if err := services.StartAndAwaitRunning(context.Background(), l.Svc); err != nil {
			failure = err.Error()
			return
		}
		time.Sleep(3 * time.Second)
		vx.Wait()
		e, ok := entry(store, "ing-1")
		if !ok || fmt.Sprint(e.Tokens) != fmt.Sprint([]uint32(oldT)) || e.State != ring.ACTIVE {
			failure = fmt.Sprintf("a lifecycler started on the directory registered %+v, the file holds %v", e, oldT)
		}
	})
	if failure != "" {
		t.Fatalf("%s", failure)
	}
	vx.Exhaustive(fmt.Sprintf("tokens-file write cut at every %d-th byte offset 0..%d of the encoded list", step, len(encoded)+1))
}

// ---------------------------------------------------------------------------------------------
// store faults while the (full) lifecycler is between two states: the transition it could not
// write is remembered and written at a later heartbeat

func TestTransitionFaultsEnum(t *testing.T) {
	idx := 0
	for _, phase := range []string{"join", "leave"} {
		for _, observe := range []time.Duration{time.Second, 2 * time.Second, 3 * time.Second} {
			for _, hb := range []time.Duration{2 * time.Second, 4 * time.Second, 7 * time.Second} {
				for a := 1; a <= 4; a++ {
					for w := 1; w <= 3; w++ {
						if phase == "leave" && (observe != 2*time.Second || a > 2) {
							continue
						}
						idx++
						if !vx.Mine(idx) {
							continue
						}
						failure, hitTransition := transitionFault(t, phase, observe, hb, a, w)
						vx.Eval(1)
						if hitTransition {
							vx.NonTrivial(vx.FP("transition-fault", phase, observe, hb, a, w))
							vx.Class("transition_write_rejected/"+phase, 1)
						} else {
							vx.Class("window_missed_transition/"+phase, 1)
						}
						if failure != "" {
							vx.Failf(t, "TestTransitionFaultsEnum", map[string]any{"phase": phase, "observe": observe.String(), "heartbeat": hb.String(), "first_failing_call": a, "failing_calls": w},
								"phase=%s observe=%v hb=%v failing calls [%d,%d) after the tokens were picked: %s", phase, observe, hb, a, a+w, failure)
						}
					}
				}
			}
		}
	}
	vx.Exhaustive("transition faults: full lifecycler, {joining->active after 1/2/3 s of observation, active->leaving} x heartbeat 2/4/7 s x windows of 1..3 failing store calls starting at the 1st..4th call after the tokens were picked (join) or the 1st..2nd call after the stop was requested (leave)")
}

func transitionFault(t *testing.T, phase string, observe, hb time.Duration, a, w int) (failure string, hit bool) {
	vx.Bubble(t, func(b *vx.B) {
		store, closer := consul.NewInMemoryClient(ring.GetCodec(), log.NewNopLogger(), nil)
		b.Cleanup(func() { _ = closer.Close() })
		ctx := context.Background()
		f := fakekv.NewFaulty(store)
		final := 10 * hb
		cfg := lcx.Cfg{ID: "ing-1", NumTokens: 4, JoinAfter: time.Second, Observe: observe, HBPeriod: hb, GenSeed: 5, GenSpace: 32, FinalSleep: final, Unregister: false}
		l, err := lcx.New(cfg, f)
		if err != nil {
			failure = err.Error()
			return
		}
		stopped := false
		b.Cleanup(func() {
			if !stopped {
				l.Svc.StopAsync()
				time.Sleep(final + 10*time.Second)
			}
		})
		if err := services.StartAndAwaitRunning(ctx, l.Svc); err != nil {
			failure = err.Error()
			return
		}
		want := ring.ACTIVE
		var tokens []uint32
		switch phase {
		case "join":
			// the tokens are picked (JOINING written) JoinAfter after the start; a failure before that
			// is a failed start, which the property does not speak about
			time.Sleep(time.Second + 100*time.Millisecond)
			vx.Wait()
			e, ok := entry(store, "ing-1")
			if !ok || e.State != ring.JOINING || len(e.Tokens) != 4 {
				failure = fmt.Sprintf("setup: instance not joining with its tokens: %+v", e)
				return
			}
			tokens = e.Tokens
			calls := f.Calls()
			f.FailFrom, f.FailTo = calls+a, calls+a+w
		case "leave":
			time.Sleep(observe + hb + 2*time.Second)
			vx.Wait()
			e, ok := entry(store, "ing-1")
			if !ok || e.State != ring.ACTIVE || len(e.Tokens) != 4 {
				failure = fmt.Sprintf("setup: instance not active: %+v", e)
				return
			}
			tokens = e.Tokens
			calls := f.Calls()
			f.FailFrom, f.FailTo = calls+a, calls+a+w
			l.Svc.StopAsync()
			stopped = true
			want = ring.LEAVING
		}
		armedAt := f.Calls()
		// wait for the window to close
		deadline := time.Now().Add(time.Duration(a+w+2) * (hb + observe))
		for f.Calls() < armedAt+a+w-1 && time.Now().Before(deadline) {
			time.Sleep(250 * time.Millisecond)
			vx.Wait()
		}
		if f.Calls() < armedAt+a+w-1 {
			failure = fmt.Sprintf("the lifecycler stopped calling the store: %d calls since the window was armed, window ends after %d", f.Calls()-armedAt, a+w-1)
			return
		}
		if e, ok := entry(store, "ing-1"); ok && e.State != want {
			hit = true // the window was still open when the lifecycler wanted to write the new state
		}
		// "at a later heartbeat": one heartbeat period and one more observation round after the store
		// accepts writes again (a rejected token verification is repeated after the observe period)
		time.Sleep(hb + observe + time.Second)
		vx.Wait()
		e, ok := entry(store, "ing-1")
		if !ok {
			failure = "the instance has no ring entry"
			return
		}
		if e.State != want || fmt.Sprint(e.Tokens) != fmt.Sprint(tokens) {
			failure = fmt.Sprintf("one heartbeat and one observe period after the store recovered the ring shows %v with tokens %v; the lifecycler was on its way to %v with tokens %v (it reports state %v)", e.State, e.Tokens, want, tokens, l.State())
			return
		}
		if l.State() != want {
			failure = fmt.Sprintf("the lifecycler reports state %v, the ring %v", l.State(), e.State)
		}
		if phase == "leave" {
			time.Sleep(final + 10*time.Second)
		}
	})
	return failure, hit
}

// ---------------------------------------------------------------------------------------------
// a write refused after the lifecycler's function has run (the store evaluates the function, then the
// conditional write fails for good): whatever the lifecycler does about it - give up, so that its process
// is restarted, or carry on - the instance ends up active with its full token count

func TestRefusedWritesEnum(t *testing.T) {
	var rc struct {
		Basic     bool   `json:"basic"`
		Observe   string `json:"observe"`
		Heartbeat string `json:"heartbeat"`
		First     int    `json:"first_refused_write"`
		N         int    `json:"refused_writes"`
	}
	if vx.ReplayCase("TestRefusedWritesEnum", &rc) {
		ob, _ := time.ParseDuration(rc.Observe)
		hb, _ := time.ParseDuration(rc.Heartbeat)
		if failure, _, _ := refusedWrites(t, rc.Basic, ob, hb, rc.First, rc.N); failure != "" {
			t.Fatalf("replay: %s", failure)
		}
		return
	}
	idx := 0
	for _, basic := range []bool{false, true} {
		for _, observe := range []time.Duration{0, 2 * time.Second} {
			for _, hb := range []time.Duration{2 * time.Second, 5 * time.Second} {
				for a := 1; a <= 5; a++ {
					for w := 1; w <= 2; w++ {
						idx++
						if !vx.Mine(idx) {
							continue
						}
						failure, refused, gaveUp := refusedWrites(t, basic, observe, hb, a, w)
						vx.Eval(1)
						if refused > 0 {
							vx.NonTrivial(vx.FP("refused-write", basic, observe, hb, a, w))
							vx.Class("histories_with_a_write_refused_after_its_function_ran", 1)
						}
						if gaveUp {
							vx.Class("lifecycler_gave_up_and_was_restarted", 1)
						}
						if failure != "" {
							vx.Failf(t, "TestRefusedWritesEnum", map[string]any{"basic": basic, "observe": observe.String(), "heartbeat": hb.String(), "first_refused_write": a, "refused_writes": w},
								"basic=%v observe=%v hb=%v writes [%d,%d) refused after their function ran: %s", basic, observe, hb, a, a+w, failure)
						}
					}
				}
			}
		}
	}
	vx.Exhaustive("refused writes: both lifecyclers x observe 0/2 s x heartbeat 2/5 s x windows of 1..2 writes, starting at the 1st..5th write of the process, refused after the function was evaluated")
}

func refusedWrites(t *testing.T, basic bool, observe, hb time.Duration, a, w int) (failure string, refused int, gaveUp bool) {
	vx.Bubble(t, func(b *vx.B) {
		store, closer := consul.NewInMemoryClient(ring.GetCodec(), log.NewNopLogger(), nil)
		b.Cleanup(func() { _ = closer.Close() })
		ctx := context.Background()
		// a static member holding tokens of the generator's space
		_ = store.CAS(ctx, lcx.RingKey, func(interface{}) (interface{}, bool, error) {
			d := ring.NewDesc()
			d.AddIngester("static", "static:1", "z", []uint32{1, 5, 9, 13}, ring.ACTIVE, time.Now(), false, time.Time{}, nil)
			return d, true, nil
		})
		f := fakekv.NewFaulty(store)
		f.RefuseFrom, f.RefuseTo = a, a+w
		cfg := lcx.Cfg{ID: "ing-1", Basic: basic, NumTokens: 4, JoinAfter: time.Second, Observe: observe, HBPeriod: hb, GenSeed: 5, GenSpace: 32, Unregister: false, RegState: ring.ACTIVE}
		l, err := lcx.New(cfg, f)
		if err != nil {
			failure = err.Error()
			return
		}
		cur := l
		b.Cleanup(func() {
			cur.Svc.StopAsync()
			time.Sleep(30 * time.Second)
		})
		// keep the static member's heartbeat fresh-looking is not needed: nothing here looks at health
		_ = cur.Svc.StartAsync(ctx)
		settleFor := time.Second + observe + 3*hb + 5*time.Second
		time.Sleep(settleFor)
		vx.Wait()
		refused = f.Refused
		if st := cur.Svc.State(); st == services.Failed || st == services.Terminated {
			// the lifecycler gave up: its process ends and is started again with the same identity
			gaveUp = true
			f2 := fakekv.NewFaulty(store)
			l2, err := lcx.New(cfg, f2)
			if err != nil {
				failure = err.Error()
				return
			}
			cur = l2
			_ = cur.Svc.StartAsync(ctx)
			time.Sleep(settleFor)
			vx.Wait()
		}
		if st := cur.Svc.State(); st != services.Running {
			failure = fmt.Sprintf("the lifecycler service is %v (%v)", st, cur.Svc.FailureCase())
			return
		}
		e, ok := entry(store, "ing-1")
		if !ok {
			failure = "the instance has no ring entry"
			return
		}
		if e.State != ring.ACTIVE || len(e.Tokens) != 4 {
			failure = fmt.Sprintf("%v after the refused writes the ring shows the instance %v with %d tokens %v (the lifecycler reports %v), want ACTIVE with 4 tokens (gave up and was restarted: %v)", settleFor, e.State, len(e.Tokens), e.Tokens, cur.State(), gaveUp)
			return
		}
		seen := map[uint32]bool{1: true, 5: true, 9: true, 13: true}
		for i, tk := range e.Tokens {
			if seen[tk] || (i > 0 && e.Tokens[i-1] >= tk) {
				failure = fmt.Sprintf("tokens %v are not sorted, distinct and disjoint from the static member's [1 5 9 13]", e.Tokens)
				return
			}
			seen[tk] = true
		}
		if cur.State() != ring.ACTIVE {
			failure = fmt.Sprintf("the lifecycler reports %v, the ring ACTIVE", cur.State())
		}
	})
	return failure, refused, gaveUp
}

// ---------------------------------------------------------------------------------------------
// a crash while joining, after conflict resolution took one of the tokens: the next incarnation finds its
// entry JOINING with a partial token set and must still become active with the full count

func TestCrashAfterTokenLossWhileJoining(t *testing.T) {
	idx := 0
	for _, numTokens := range []int{2, 4} {
		for _, observe := range []time.Duration{2 * time.Second, 5 * time.Second} {
			for lost := 0; lost < numTokens; lost++ {
				for _, after := range []bool{false, true} {
					idx++
					if !vx.Mine(idx) {
						continue
					}
					failure := crashAfterTokenLoss(t, numTokens, observe, lost, after)
					vx.Eval(1)
					vx.NonTrivial(vx.FP("crash-after-token-loss", numTokens, observe, lost, after))
					if failure != "" {
						vx.Failf(t, "TestCrashAfterTokenLossWhileJoining", map[string]any{"tokens": numTokens, "observe": observe.String(), "lost_token_index": lost, "crash_after_commit": after},
							"tokens=%d observe=%v lost token #%d crash after commit=%v: %s", numTokens, observe, lost, after, failure)
					}
				}
			}
		}
	}
	vx.Exhaustive("crash while joining after a token was lost: full lifecycler, 2/4 tokens x observe 2/5 s x each token in turn x crash before/after the commit of the next write")
}

func crashAfterTokenLoss(t *testing.T, numTokens int, observe time.Duration, lost int, after bool) (failure string) {
	vx.Bubble(t, func(b *vx.B) {
		store, closer := consul.NewInMemoryClient(ring.GetCodec(), log.NewNopLogger(), nil)
		b.Cleanup(func() { _ = closer.Close() })
		ctx := context.Background()
		_ = store.CAS(ctx, lcx.RingKey, func(interface{}) (interface{}, bool, error) {
			d := ring.NewDesc()
			d.AddIngester("other", "other:1", "z", []uint32{28, 29, 30, 31}, ring.ACTIVE, time.Now(), false, time.Time{}, nil)
			return d, true, nil
		})
		cfg := lcx.Cfg{ID: "ing-1", NumTokens: numTokens, JoinAfter: time.Second, Observe: observe, HBPeriod: time.Second, GenSeed: 7, GenSpace: 28, FinalSleep: time.Second}
		f1 := fakekv.NewFaulty(store)
		l1, err := lcx.New(cfg, f1)
		if err != nil {
			failure = err.Error()
			return
		}
		var l2 *lcx.LC
		b.Cleanup(func() {
			f1.Release()
			l1.Svc.StopAsync()
			if l2 != nil {
				l2.Svc.StopAsync()
			}
			time.Sleep(20 * time.Second)
		})
		if err := services.StartAndAwaitRunning(ctx, l1.Svc); err != nil {
			failure = err.Error()
			return
		}
		time.Sleep(time.Second + 100*time.Millisecond)
		vx.Wait()
		e, ok := entry(store, "ing-1")
		if !ok || e.State != ring.JOINING || len(e.Tokens) != numTokens {
			failure = fmt.Sprintf("setup: instance not joining with its tokens: %+v", e)
			return
		}
		registered := e.RegisteredTimestamp
		// the process dies inside its next write (a heartbeat, one second from now) ...
		f1.After = after
		f1.CrashAt = f1.Writes() + 1
		// ... after conflict resolution gave one of its tokens to "other"
		tk := e.Tokens[lost]
		_ = store.CAS(ctx, lcx.RingKey, func(v interface{}) (interface{}, bool, error) {
			d := ring.GetOrCreateRingDesc(v)
			in := d.Ingesters["ing-1"]
			in.Tokens = append(append([]uint32{}, in.Tokens[:lost]...), in.Tokens[lost+1:]...)
			d.Ingesters["ing-1"] = in
			o := d.Ingesters["other"]
			o.Tokens = append(append([]uint32{}, o.Tokens...), tk)
			sort.Slice(o.Tokens, func(a, b int) bool { return o.Tokens[a] < o.Tokens[b] })
			d.Ingesters["other"] = o
			return d, true, nil
		})
		time.Sleep(1500 * time.Millisecond)
		vx.Wait()
		if !f1.Crashed() {
			failure = "setup: the first incarnation did not reach its next write"
			return
		}
		e, _ = entry(store, "ing-1")
		kept := append([]uint32{}, e.Tokens...)
		// a new incarnation with the same identity
		l2, err = lcx.New(cfg, store)
		if err != nil {
			failure = err.Error()
			return
		}
		if err := services.StartAndAwaitRunning(ctx, l2.Svc); err != nil {
			failure = fmt.Sprintf("the restarted lifecycler failed to start: %v", err)
			return
		}
		time.Sleep(time.Second + 3*observe + 5*time.Second)
		vx.Wait()
		e, ok = entry(store, "ing-1")
		if !ok || e.State != ring.ACTIVE || len(e.Tokens) != numTokens {
			failure = fmt.Sprintf("the restarted instance (entry left JOINING with tokens %v) is %v with %d tokens %v, want ACTIVE with %d", kept, e.State, len(e.Tokens), e.Tokens, numTokens)
			return
		}
		have := map[uint32]bool{}
		for i, x := range e.Tokens {
			if x == tk || x >= 28 || (i > 0 && e.Tokens[i-1] >= x) {
				failure = fmt.Sprintf("tokens %v are not sorted, distinct and disjoint from the other member's (which now holds %d too)", e.Tokens, tk)
				return
			}
			have[x] = true
		}
		for _, x := range kept {
			if !have[x] {
				failure = fmt.Sprintf("the restarted instance dropped token %d that its entry recorded (%v -> %v)", x, kept, e.Tokens)
				return
			}
		}
		if e.RegisteredTimestamp != registered {
			failure = fmt.Sprintf("registration time changed across the restart: %d -> %d", registered, e.RegisteredTimestamp)
		}
	})
	return failure
}

// ---------------------------------------------------------------------------------------------
// the tokens file follows the tokens: a token replaced while joining (conflict resolution gave it to
// somebody else) is replaced in the file too, so that a later restart without a ring entry resumes
// with the tokens the instance really held

func TestTokensFileAfterReplacement(t *testing.T) {
	idx := 0
	for _, numTokens := range []int{1, 4} {
		for _, observe := range []time.Duration{time.Second, 3 * time.Second} {
			for lost := 0; lost < numTokens; lost++ {
				for _, unregister := range []bool{true, false} {
					idx++
					if !vx.Mine(idx) {
						continue
					}
					failure := tokensFileAfterReplacement(t, numTokens, observe, lost, unregister)
					vx.Eval(1)
					vx.NonTrivial(vx.FP("file-after-replacement", numTokens, observe, lost, unregister))
					if failure != "" {
						vx.Failf(t, "TestTokensFileAfterReplacement", map[string]any{"tokens": numTokens, "observe": observe.String(), "lost_token_index": lost, "unregister": unregister},
							"tokens=%d observe=%v lost token #%d unregister=%v: %s", numTokens, observe, lost, unregister, failure)
					}
				}
			}
		}
	}
	vx.Exhaustive("tokens file after a replacement: full lifecycler with a tokens file, 1 or 4 tokens, observe 1/3 s, each token in turn taken away while joining, stop with and without unregistering, restart")
}

func tokensFileAfterReplacement(t *testing.T, numTokens int, observe time.Duration, lost int, unregister bool) (failure string) {
	dir, err := os.MkdirTemp("", "c09f")
	if err != nil {
		return err.Error()
	}
	defer os.RemoveAll(dir)
	vx.Bubble(t, func(b *vx.B) {
		store, closer := consul.NewInMemoryClient(ring.GetCodec(), log.NewNopLogger(), nil)
		b.Cleanup(func() { _ = closer.Close() })
		ctx := context.Background()
		_ = store.CAS(ctx, lcx.RingKey, func(interface{}) (interface{}, bool, error) {
			d := ring.NewDesc()
			d.AddIngester("other", "other:1", "z", []uint32{28, 29, 30, 31}, ring.ACTIVE, time.Now(), false, time.Time{}, nil)
			return d, true, nil
		})
		cfg := lcx.Cfg{ID: "ing-1", NumTokens: numTokens, JoinAfter: time.Second, Observe: observe, HBPeriod: 2 * time.Second, GenSeed: 7, GenSpace: 28,
			TokensPath: filepath.Join(dir, "tokens"), Unregister: unregister, FinalSleep: time.Second}
		l1, err := lcx.New(cfg, store)
		if err != nil {
			failure = err.Error()
			return
		}
		stopped := false
		var l2 *lcx.LC
		b.Cleanup(func() {
			if !stopped {
				l1.Svc.StopAsync()
			}
			if l2 != nil {
				l2.Svc.StopAsync()
			}
			time.Sleep(20 * time.Second)
		})
		if err := services.StartAndAwaitRunning(ctx, l1.Svc); err != nil {
			failure = err.Error()
			return
		}
		time.Sleep(time.Second + 100*time.Millisecond)
		vx.Wait()
		e, ok := entry(store, "ing-1")
		if !ok || e.State != ring.JOINING || len(e.Tokens) != numTokens {
			failure = fmt.Sprintf("setup: instance not joining with its tokens: %+v", e)
			return
		}
		// conflict resolution: the token now belongs to "other"
		tk := e.Tokens[lost]
		_ = store.CAS(ctx, lcx.RingKey, func(v interface{}) (interface{}, bool, error) {
			d := ring.GetOrCreateRingDesc(v)
			in := d.Ingesters["ing-1"]
			in.Tokens = append(append([]uint32{}, in.Tokens[:lost]...), in.Tokens[lost+1:]...)
			d.Ingesters["ing-1"] = in
			o := d.Ingesters["other"]
			o.Tokens = append(append([]uint32{}, o.Tokens...), tk)
			sort.Slice(o.Tokens, func(a, b int) bool { return o.Tokens[a] < o.Tokens[b] })
			d.Ingesters["other"] = o
			return d, true, nil
		})
		time.Sleep(3*observe + 3*time.Second)
		vx.Wait()
		e, ok = entry(store, "ing-1")
		if !ok || e.State != ring.ACTIVE || len(e.Tokens) != numTokens {
			failure = fmt.Sprintf("after the token was taken away the instance did not become active with %d tokens: %+v", numTokens, e)
			return
		}
		for _, x := range e.Tokens {
			if x == tk {
				failure = fmt.Sprintf("the instance took back token %d, which conflict resolution gave to another instance", tk)
				return
			}
		}
		held := append([]uint32{}, e.Tokens...)
		file, err := ring.LoadTokensFromFile(cfg.TokensPath)
		if err != nil {
			failure = fmt.Sprintf("tokens file unreadable while the instance is active: %v", err)
			return
		}
		if fmt.Sprint([]uint32(file)) != fmt.Sprint(held) {
			failure = fmt.Sprintf("the instance holds %v (ring entry) but its tokens file records %v", held, []uint32(file))
			return
		}
		// stop, lose the entry (unregistered, or the ring wiped), restart from the file
		if err := services.StopAndAwaitTerminated(ctx, l1.Svc); err != nil {
			failure = fmt.Sprintf("stop: %v", err)
			return
		}
		stopped = true
		_ = store.CAS(ctx, lcx.RingKey, func(v interface{}) (interface{}, bool, error) {
			d := ring.GetOrCreateRingDesc(v)
			delete(d.Ingesters, "ing-1")
			return d, true, nil
		})
		time.Sleep(2 * time.Second)
		l2, err = lcx.New(cfg, store)
		if err != nil {
			failure = err.Error()
			return
		}
		if err := services.StartAndAwaitRunning(ctx, l2.Svc); err != nil {
			failure = fmt.Sprintf("restart: %v", err)
			return
		}
		time.Sleep(3*observe + 5*time.Second)
		vx.Wait()
		e, ok = entry(store, "ing-1")
		if !ok || e.State != ring.ACTIVE {
			failure = fmt.Sprintf("after the restart the instance is not active: %+v", e)
			return
		}
		if fmt.Sprint(e.Tokens) != fmt.Sprint(held) {
			failure = fmt.Sprintf("before the stop the instance held %v; restarted without a ring entry (from its tokens file) it holds %v", held, e.Tokens)
			return
		}
		o, _ := entry(store, "other")
		for _, x := range e.Tokens {
			for _, y := range o.Tokens {
				if x == y {
					failure = fmt.Sprintf("after the restart token %d is held by both instances", x)
					return
				}
			}
		}
	})
	return failure
}

// ---------------------------------------------------------------------------------------------
// restart after a token hand-over: the instance left without unregistering, another instance claimed its
// tokens, its own tokens file still lists them; the new incarnation must not take them back

func TestRestartAfterHandOver(t *testing.T) {
	idx := 0
	for _, numTokens := range []int{1, 4} {
		for _, observe := range []time.Duration{0, 2 * time.Second} {
			for _, claimerActive := range []bool{true, false} {
				idx++
				if !vx.Mine(idx) {
					continue
				}
				failure := restartAfterHandOver(t, numTokens, observe, claimerActive)
				vx.Eval(1)
				vx.NonTrivial(vx.FP("restart-after-hand-over", numTokens, observe, claimerActive))
				if failure != "" {
					vx.Failf(t, "TestRestartAfterHandOver", map[string]any{"tokens": numTokens, "observe": observe.String(), "claimer_active": claimerActive},
						"tokens=%d observe=%v claimer active=%v: %s", numTokens, observe, claimerActive, failure)
				}
			}
		}
	}
	vx.Exhaustive("restart after a hand-over: full lifecycler with a tokens file, 1 or 4 tokens, observe 0/2 s, stopped keeping its entry, its tokens claimed by a joining instance (which has or has not become active yet), restart")
}

func restartAfterHandOver(t *testing.T, numTokens int, observe time.Duration, claimerActive bool) (failure string) {
	dir, err := os.MkdirTemp("", "c09h")
	if err != nil {
		return err.Error()
	}
	defer os.RemoveAll(dir)
	vx.Bubble(t, func(b *vx.B) {
		store, closer := consul.NewInMemoryClient(ring.GetCodec(), log.NewNopLogger(), nil)
		b.Cleanup(func() { _ = closer.Close() })
		ctx := context.Background()
		_ = store.CAS(ctx, lcx.RingKey, func(interface{}) (interface{}, bool, error) {
			d := ring.NewDesc()
			d.AddIngester("other", "other:1", "z", []uint32{28, 29, 30, 31}, ring.ACTIVE, time.Now(), false, time.Time{}, nil)
			return d, true, nil
		})
		cfg := lcx.Cfg{ID: "ing-1", NumTokens: numTokens, JoinAfter: time.Second, Observe: observe, HBPeriod: 2 * time.Second, GenSeed: 7, GenSpace: 28,
			TokensPath: filepath.Join(dir, "tokens"), Unregister: false, FinalSleep: time.Second}
		l1, err := lcx.New(cfg, store)
		if err != nil {
			failure = err.Error()
			return
		}
		var l2, l3 *lcx.LC
		b.Cleanup(func() {
			l1.Svc.StopAsync()
			if l2 != nil {
				l2.Svc.StopAsync()
			}
			if l3 != nil {
				l3.Svc.StopAsync()
			}
			time.Sleep(30 * time.Second)
		})
		if err := services.StartAndAwaitRunning(ctx, l1.Svc); err != nil {
			failure = err.Error()
			return
		}
		time.Sleep(3*observe + 4*time.Second)
		vx.Wait()
		first, ok := entry(store, "ing-1")
		if !ok || first.State != ring.ACTIVE || len(first.Tokens) != numTokens {
			failure = fmt.Sprintf("setup: first life not active with its tokens: %+v", first)
			return
		}
		if err := services.StopAndAwaitTerminated(ctx, l1.Svc); err != nil {
			failure = fmt.Sprintf("setup: stopping the first life: %v", err)
			return
		}
		left, ok := entry(store, "ing-1")
		if !ok || left.State != ring.LEAVING {
			failure = fmt.Sprintf("setup: the stopped instance did not keep a LEAVING entry: %v %+v", ok, left)
			return
		}
		file, _ := ring.LoadTokensFromFile(cfg.TokensPath)
		if fmt.Sprint([]uint32(file)) != fmt.Sprint(first.Tokens) {
			failure = fmt.Sprintf("setup: tokens file holds %v, the instance held %v", file, first.Tokens)
			return
		}
		// the claimer
		ccfg := lcx.Cfg{ID: "ing-2", NumTokens: numTokens, JoinAfter: time.Hour, HBPeriod: 2 * time.Second, GenSeed: 9, GenSpace: 28, Unregister: false, FinalSleep: time.Second}
		l2, err = lcx.New(ccfg, store)
		if err != nil {
			failure = err.Error()
			return
		}
		if err := services.StartAndAwaitRunning(ctx, l2.Svc); err != nil {
			failure = err.Error()
			return
		}
		time.Sleep(time.Second)
		if err := l2.Full.ChangeState(ctx, ring.JOINING); err != nil {
			failure = fmt.Sprintf("setup: claimer to JOINING: %v", err)
			return
		}
		if err := l2.Full.ClaimTokensFor(ctx, "ing-1"); err != nil {
			failure = fmt.Sprintf("setup: ClaimTokensFor: %v", err)
			return
		}
		if claimerActive {
			if err := l2.Full.ChangeState(ctx, ring.ACTIVE); err != nil {
				failure = fmt.Sprintf("setup: claimer to ACTIVE: %v", err)
				return
			}
		}
		time.Sleep(3 * time.Second)
		vx.Wait()
		claimer, _ := entry(store, "ing-2")
		handed, _ := entry(store, "ing-1")
		if fmt.Sprint(claimer.Tokens) != fmt.Sprint(first.Tokens) || len(handed.Tokens) != 0 {
			failure = fmt.Sprintf("setup: after the claim the claimer holds %v and the old entry %v (first life held %v)", claimer.Tokens, handed.Tokens, first.Tokens)
			return
		}
		// the new incarnation of ing-1
		l3, err = lcx.New(cfg, store)
		if err != nil {
			failure = err.Error()
			return
		}
		if err := services.StartAndAwaitRunning(ctx, l3.Svc); err != nil {
			failure = fmt.Sprintf("the new incarnation failed to start: %v", err)
			return
		}
		time.Sleep(3*observe + 10*time.Second)
		vx.Wait()
		final, ok := entry(store, "ing-1")
		if !ok || final.State != ring.ACTIVE || len(final.Tokens) != numTokens {
			failure = fmt.Sprintf("after the restart the instance is not active with %d tokens: present=%v %+v", numTokens, ok, final)
			return
		}
		claimer, _ = entry(store, "ing-2")
		if fmt.Sprint(claimer.Tokens) != fmt.Sprint(first.Tokens) {
			failure = fmt.Sprintf("the claimer held %v and now holds %v", first.Tokens, claimer.Tokens)
			return
		}
		for _, tk := range final.Tokens {
			for _, o := range append(append([]uint32{}, claimer.Tokens...), 28, 29, 30, 31) {
				if tk == o {
					failure = fmt.Sprintf("after the restart the instance holds %v: token %d belongs to another instance (ing-2, which claimed the tokens of the first life, holds %v)", final.Tokens, tk, claimer.Tokens)
					return
				}
			}
		}
		if final.RegisteredTimestamp != left.RegisteredTimestamp {
			failure = fmt.Sprintf("registration time changed across the restart: %d -> %d (the entry existed)", left.RegisteredTimestamp, final.RegisteredTimestamp)
		}
	})
	return failure
}
