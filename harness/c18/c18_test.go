// Package c18: modules initialise, start and stop in dependency order for every graph.
package c18

import (
	"context"
	"errors"
	"fmt"
	"sort"
	"strings"
	"sync"
	"testing"
	"time"

	"github.com/go-kit/log"
	"pgregory.net/rapid"

	"github.com/grafana/dskit/modules"
	"github.com/grafana/dskit/services"

	"verifharness/internal/vx"
)

func TestMain(m *testing.M) {
	vx.Rule("init order: a (graph, targets) case is non-trivial when the graph contains a diamond (a module reachable by two different paths) or a target is a dependency of another target; run time: a run with a start/run/stop failure or a stop requested during start-up; distinct = distinct case fingerprint")
	vx.Assume("graphs are enumerated as all edge sets over a topological labelling (i depends on j only if j < i), registered in permuted order: every DAG is isomorphic to one of them")
	vx.Assume("the stop-order clause is asserted for stops the wrapper initiates (underlying service still Running when asked to stop); a service whose run function failed stops itself whatever its dependants do")
	vx.Main(m)
}

type graph struct {
	N    int           `json:"n"`
	Deps map[int][]int `json:"deps"` // direct dependencies
}

func (g graph) reach(i int) map[int]bool {
	seen := map[int]bool{}
	var dfs func(int)
	dfs = func(x int) {
		for _, d := range g.Deps[x] {
			if !seen[d] {
				seen[d] = true
				dfs(d)
			}
		}
	}
	dfs(i)
	return seen
}

// paths counts distinct paths from i to j (> 1 somewhere = diamond).
func (g graph) hasDiamond() bool {
	for i := 0; i < g.N; i++ {
		cnt := map[int]int{}
		var dfs func(int)
		dfs = func(x int) {
			for _, d := range g.Deps[x] {
				cnt[d]++
				dfs(d)
			}
		}
		dfs(i)
		for _, c := range cnt {
			if c > 1 {
				return true
			}
		}
	}
	return false
}

func name(i int) string { return fmt.Sprintf("m%d", i) }

// mode: 0 = module with a service, 1 = init function returning a nil service, 2 = nil init function
// declSeed > 0: the dependencies are declared edge by edge in an order derived from the seed (not module
// by module, bottom-up), and the dependency list of some module is read between two declarations.
func buildManager(g graph, mode func(i int) int, regOrder []int, variadic bool, order *[]string, declSeed int) (*modules.Manager, error) {
	mm := modules.NewManager(log.NewNopLogger())
	for _, i := range regOrder {
		i := i
		switch mode(i) {
		case 2:
			mm.RegisterModule(name(i), nil)
		case 1:
			mm.RegisterModule(name(i), func() (services.Service, error) { *order = append(*order, name(i)); return nil, nil })
		default:
			mm.RegisterModule(name(i), func() (services.Service, error) {
				*order = append(*order, name(i))
				return services.NewIdleService(nil, nil), nil
			})
		}
	}
	if declSeed > 0 {
		type edge struct{ from, to int }
		var edges []edge
		for i := 0; i < g.N; i++ {
			for _, d := range g.Deps[i] {
				edges = append(edges, edge{i, d})
			}
		}
		sort.SliceStable(edges, func(a, b int) bool {
			return vx.Mix(uint64(declSeed)*1000003+uint64(edges[a].from)*131+uint64(edges[a].to), 1<<30) < vx.Mix(uint64(declSeed)*1000003+uint64(edges[b].from)*131+uint64(edges[b].to), 1<<30)
		})
		for k, e := range edges {
			if err := mm.AddDependency(name(e.from), name(e.to)); err != nil {
				return nil, err
			}
			_ = mm.DependenciesForModule(name((k*declSeed + e.from) % g.N))
		}
		return mm, nil
	}
	// the variadic declarations pass slices of one buffer the caller keeps reusing (and finally overwrites):
	// the manager must not keep the caller's memory
	buf := make([]string, 0, 16)
	defer func() {
		buf = buf[:cap(buf)]
		for k := range buf {
			buf[k] = "overwritten-by-the-caller"
		}
	}()
	for i := 0; i < g.N; i++ {
		ds := g.Deps[i]
		if len(ds) == 0 {
			continue
		}
		if variadic {
			ns := buf[:0]
			for _, d := range ds {
				ns = append(ns, name(d))
			}
			// in two calls when there are several: the second call extends what the first one stored
			cut := len(ns)
			if len(ns) > 1 && i%2 == 1 {
				cut = len(ns) / 2
			}
			if err := mm.AddDependency(name(i), ns[:cut]...); err != nil {
				return nil, err
			}
			if cut < len(ns) {
				if err := mm.AddDependency(name(i), ns[cut:]...); err != nil {
					return nil, err
				}
			}
		} else {
			for _, d := range ds {
				if err := mm.AddDependency(name(i), name(d)); err != nil {
					return nil, err
				}
			}
		}
	}
	return mm, nil
}

// checkInit initialises the targets and checks the init log; then cycle rejection.
func checkInit(g graph, targets []int, mode func(i int) int, regOrder []int, variadic bool, declSeed int) error {
	var order []string
	mm, err := buildManager(g, mode, regOrder, variadic, &order, declSeed)
	if err != nil {
		return fmt.Errorf("AddDependency on an acyclic graph failed: %v", err)
	}
	needed := map[int]bool{}
	var tl []string
	for _, t := range targets {
		tl = append(tl, name(t))
		needed[t] = true
		for d := range g.reach(t) {
			needed[d] = true
		}
	}
	svcs, err := mm.InitModuleServices(tl...)
	if err != nil {
		return fmt.Errorf("InitModuleServices(%v): %v", tl, err)
	}
	pos := map[string]int{}
	for p, n := range order {
		if _, dup := pos[n]; dup {
			return fmt.Errorf("module %s initialised twice: %v", n, order)
		}
		pos[n] = p
	}
	for i := 0; i < g.N; i++ {
		_, inited := pos[name(i)]
		if mode(i) == 2 {
			if inited {
				return fmt.Errorf("harness: nil init function ran")
			}
			if _, has := svcs[name(i)]; has {
				return fmt.Errorf("module %s has no init function but a service was returned", name(i))
			}
			continue
		}
		if inited != needed[i] {
			return fmt.Errorf("module %s initialised=%v but needed=%v (targets %v, order %v)", name(i), inited, needed[i], tl, order)
		}
		_, has := svcs[name(i)]
		if has != (inited && mode(i) == 0) {
			return fmt.Errorf("module %s: service returned=%v, initialised=%v, mode=%d", name(i), has, inited, mode(i))
		}
		if inited {
			for d := range g.reach(i) {
				if mode(d) == 2 {
					continue
				}
				if pos[name(d)] > pos[name(i)] {
					return fmt.Errorf("%s initialised before its dependency %s: %v", name(i), name(d), order)
				}
			}
		}
	}
	// DependenciesForModule = sorted transitive closure
	for i := 0; i < g.N; i++ {
		var want []string
		for d := range g.reach(i) {
			want = append(want, name(d))
		}
		sort.Strings(want)
		got := mm.DependenciesForModule(name(i))
		if fmt.Sprint(got) != fmt.Sprint(want) && !(len(got) == 0 && len(want) == 0) {
			return fmt.Errorf("DependenciesForModule(%s) = %v, want %v", name(i), got, want)
		}
	}
	// adding a dependency that would close a cycle is rejected and changes nothing
	for i := 0; i < g.N; i++ {
		for d := range g.reach(i) {
			before := fmt.Sprint(mm.DependenciesForModule(name(d)))
			if err := mm.AddDependency(name(d), name(i)); err == nil {
				return fmt.Errorf("AddDependency(%s -> %s) closes a cycle but was accepted", name(d), name(i))
			}
			if after := fmt.Sprint(mm.DependenciesForModule(name(d))); after != before {
				return fmt.Errorf("rejected AddDependency(%s -> %s) changed the dependencies: %s -> %s", name(d), name(i), before, after)
			}
		}
		// the shortest cycle: a module depending on itself (finding F9, fixed)
		before := fmt.Sprint(mm.DependenciesForModule(name(i)))
		if err := mm.AddDependency(name(i), name(i)); err == nil {
			return fmt.Errorf("AddDependency(%s -> %s): a self-dependency closes a cycle but was accepted", name(i), name(i))
		}
		if after := fmt.Sprint(mm.DependenciesForModule(name(i))); after != before {
			return fmt.Errorf("rejected self-dependency changed the dependencies of %s", name(i))
		}
	}
	return nil
}

func graphFromMask(n, mask int) graph {
	g := graph{N: n, Deps: map[int][]int{}}
	e := 0
	for i := 0; i < n; i++ {
		for j := 0; j < i; j++ {
			if mask&(1<<e) != 0 {
				g.Deps[i] = append(g.Deps[i], j)
			}
			e++
		}
	}
	return g
}

type initCase struct {
	G        graph `json:"graph"`
	Targets  []int `json:"targets"`
	ModeSeed int   `json:"mode_seed"`
	RegOrder []int `json:"reg_order"`
	Variadic bool  `json:"variadic"`
	DeclSeed int   `json:"declaration_order_seed"`
}

func (c initCase) mode() func(int) int {
	return func(i int) int {
		switch (i*7 + c.ModeSeed) % 5 {
		case 0:
			return 1
		case 1:
			if c.ModeSeed%3 == 0 {
				return 2
			}
		}
		return 0
	}
}

func TestInitOrderExhaustive(t *testing.T) {
	var rc initCase
	if vx.ReplayCase("TestInitOrderExhaustive", &rc) {
		if err := checkInit(rc.G, rc.Targets, rc.mode(), rc.RegOrder, rc.Variadic, rc.DeclSeed); err != nil {
			t.Fatalf("replay: %v", err)
		}
		return
	}
	maxN := vx.Pick(4, 5)
	idx := 0
	for n := 1; n <= maxN; n++ {
		nEdges := n * (n - 1) / 2
		for mask := 0; mask < 1<<nEdges; mask++ {
			g := graphFromMask(n, mask)
			diamond := g.hasDiamond()
			for targets := 1; targets < 1<<n; targets++ {
				idx++
				if !vx.Mine(idx) {
					continue
				}
				var tl []int
				for i := 0; i < n; i++ {
					if targets&(1<<i) != 0 {
						tl = append(tl, i)
					}
				}
				// targets are given in ascending, descending or rotated order
				switch idx % 3 {
				case 1:
					for a, b := 0, len(tl)-1; a < b; a, b = a+1, b-1 {
						tl[a], tl[b] = tl[b], tl[a]
					}
				case 2:
					tl = append(tl[1:], tl[0])
				}
				reg := make([]int, n)
				for i := range reg {
					reg[i] = (i*3 + idx) % n
				}
				// make reg a permutation
				seen := map[int]bool{}
				reg = reg[:0]
				for k := 0; len(reg) < n; k++ {
					x := (k*3 + idx) % n
					for seen[x] {
						x = (x + 1) % n
					}
					seen[x] = true
					reg = append(reg, x)
				}
				c := initCase{G: g, Targets: tl, ModeSeed: idx % 11, RegOrder: reg, Variadic: idx%2 == 0, DeclSeed: (idx / 2) % 4}
				vx.Eval(1)
				nt := diamond
				for _, a := range tl {
					for _, b := range tl {
						if g.reach(a)[b] {
							nt = true
						}
					}
				}
				if nt {
					vx.NonTrivial(vx.FP("init", n, mask, targets))
				}
				if err := checkInit(g, tl, c.mode(), reg, c.Variadic, c.DeclSeed); err != nil {
					vx.Failf(t, "TestInitOrderExhaustive", c, "%v\ngraph=%v targets=%v", err, g.Deps, tl)
				}
			}
		}
	}
	vx.Exhaustive(fmt.Sprintf("all topologically labelled DAGs on 1..%d modules x every non-empty target subset", maxN))
	vx.Sample("init_case", map[string]any{"deps": map[string][]int{"m3": {1, 2}, "m1": {0}, "m2": {0}}, "targets": []string{"m3", "m1"}})
}

func genGraph(rt *rapid.T, maxN int) graph {
	n := rapid.IntRange(2, maxN).Draw(rt, "modules")
	g := graph{N: n, Deps: map[int][]int{}}
	density := rapid.IntRange(1, 4).Draw(rt, "density")
	for i := 0; i < n; i++ {
		for j := 0; j < i; j++ {
			if rapid.IntRange(0, density).Draw(rt, "edge") == 0 {
				g.Deps[i] = append(g.Deps[i], j)
			}
		}
		// duplicate edges are legal input
		if len(g.Deps[i]) > 0 && rapid.IntRange(0, 5).Draw(rt, "dupEdge") == 0 {
			g.Deps[i] = append(g.Deps[i], g.Deps[i][0])
		}
	}
	return g
}

func TestInitOrderRapid(t *testing.T) {
	rapid.Check(t, func(rt *rapid.T) {
		g := genGraph(rt, 12)
		reg := rapid.Permutation(seq(g.N)).Draw(rt, "regOrder")
		tl := rapid.SliceOfNDistinct(rapid.IntRange(0, g.N-1), 1, g.N, func(i int) int { return i }).Draw(rt, "targets")
		c := initCase{G: g, Targets: tl, ModeSeed: rapid.IntRange(0, 10).Draw(rt, "modeSeed"), RegOrder: reg, Variadic: rapid.Bool().Draw(rt, "variadic"), DeclSeed: rapid.IntRange(0, 60).Draw(rt, "declarationOrder")}
		vx.Eval(1)
		if g.hasDiamond() {
			vx.NonTrivial(vx.FP("initr", fmt.Sprint(c)))
		}
		if err := checkInit(g, tl, c.mode(), reg, c.Variadic, c.DeclSeed); err != nil {
			rt.Fatalf("%v\ngraph=%v targets=%v", err, g.Deps, tl)
		}
	})
}

func seq(n int) []int {
	s := make([]int, n)
	for i := range s {
		s[i] = i
	}
	return s
}

// ---------------------------------------------------------------------------------------------
// run time

type rtHarness struct {
	mu        sync.Mutex
	g         graph
	under     map[int]*services.BasicService
	parked    map[string]chan error
	timeline  []string
	started   map[int]bool
	selfStop  map[int]bool
	violation string
}

func (h *rtHarness) fail(f string, a ...any) {
	if h.violation == "" {
		h.violation = fmt.Sprintf(f, a...)
	}
}

func (h *rtHarness) gate(kind string, i int) chan error {
	ch := make(chan error, 1)
	h.mu.Lock()
	defer h.mu.Unlock()
	h.timeline = append(h.timeline, fmt.Sprintf("%s:%d", kind, i))
	h.parked[fmt.Sprintf("%s:%d", kind, i)] = ch
	switch kind {
	case "start":
		h.started[i] = true
		for d := range h.g.reach(i) {
			u := h.under[d]
			if u == nil {
				continue // module without a service
			}
			// a dependency whose run function failed stops by itself at any time; it had been running
			if st := u.State(); st != services.Running && !h.selfStop[d] {
				h.fail("m%d's service started while its dependency m%d was %v", i, d, st)
			}
		}
	case "stop":
		if !h.selfStop[i] {
			for x := 0; x < h.g.N; x++ {
				if x != i && h.g.reach(x)[i] {
					u := h.under[x]
					if u == nil {
						continue
					}
					if st := u.State(); st != services.Terminated && st != services.Failed && st != services.New {
						h.fail("m%d's service was stopped while its dependant m%d was still %v", i, x, st)
					}
				}
			}
		}
	}
	return ch
}

func TestRuntimeOrderRapid(t *testing.T) {
	rapid.Check(t, func(rt *rapid.T) {
		g := genGraph(rt, vx.Pick(7, 12))
		n := g.N
		hasSvc := make([]bool, n)
		for i := range hasSvc {
			hasSvc[i] = rapid.IntRange(0, 5).Draw(rt, "hasService") > 0
		}
		// targets: all modules, or a drawn subset
		targets := seq(n)
		if rapid.Bool().Draw(rt, "subset") {
			targets = rapid.SliceOfNDistinct(rapid.IntRange(0, n-1), 1, n, func(i int) int { return i }).Draw(rt, "targets")
		}
		type act struct {
			Kind string // release (highest-priority parked gate), runfail, stop, tick
			Svc  int
			Err  bool
		}
		var plan []act
		nSteps := rapid.IntRange(1, 6*n).Draw(rt, "steps")
		for i := 0; i < nSteps; i++ {
			plan = append(plan, act{Kind: rapid.SampledFrom([]string{"release", "release", "release", "release", "runfail", "stop", "tick", "longtick"}).Draw(rt, "kind"),
				Svc: rapid.IntRange(0, n-1).Draw(rt, "svc"), Err: rapid.IntRange(0, 5).Draw(rt, "err") == 0})
		}
		var failure string
		nt := false
		vx.Bubble(t, func(b *vx.B) {
			h := &rtHarness{g: g, under: map[int]*services.BasicService{}, parked: map[string]chan error{}, started: map[int]bool{}, selfStop: map[int]bool{}}
			mm := modules.NewManager(log.NewNopLogger())
			runFail := map[int]chan error{}
			for i := 0; i < n; i++ {
				i := i
				if !hasSvc[i] {
					mm.RegisterModule(name(i), func() (services.Service, error) { return nil, nil })
					continue
				}
				runFail[i] = make(chan error, 1)
				mm.RegisterModule(name(i), func() (services.Service, error) {
					s := services.NewBasicService(
						func(context.Context) error { return <-h.gate("start", i) },
						func(ctx context.Context) error {
							select {
							case err := <-runFail[i]:
								return err
							case <-ctx.Done():
								return nil
							}
						},
						func(error) error { return <-h.gate("stop", i) },
					)
					h.mu.Lock()
					h.under[i] = s
					h.mu.Unlock()
					return s, nil
				})
			}
			for i := 0; i < n; i++ {
				for _, d := range g.Deps[i] {
					if err := mm.AddDependency(name(i), name(d)); err != nil {
						failure = fmt.Sprintf("AddDependency: %v", err)
						return
					}
				}
			}
			var tl []string
			for _, x := range targets {
				tl = append(tl, name(x))
			}
			svcs, err := mm.InitModuleServices(tl...)
			if err != nil {
				failure = fmt.Sprintf("InitModuleServices: %v", err)
				return
			}
			if len(svcs) == 0 {
				return
			}
			var list []services.Service
			wrapperOf := map[int]services.Service{}
			for i := 0; i < n; i++ {
				if s, ok := svcs[name(i)]; ok {
					list = append(list, s)
					wrapperOf[i] = s
				}
			}
			mgr, err := services.NewManager(list...)
			if err != nil {
				failure = fmt.Sprintf("NewManager: %v", err)
				return
			}
			stopped := false
			startFailed := map[int]bool{}
			b.Cleanup(func() {
				mgr.StopAsync()
				for k := 0; k < 6*n+6; k++ {
					vx.Wait()
					h.mu.Lock()
					var chs []chan error
					for key, ch := range h.parked {
						chs = append(chs, ch)
						delete(h.parked, key)
					}
					h.mu.Unlock()
					for _, ch := range chs {
						ch <- nil
					}
				}
				vx.Wait()
			})
			if err := mgr.StartAsync(context.Background()); err != nil {
				failure = fmt.Sprintf("Manager.StartAsync: %v", err)
				return
			}
			vx.Wait()
			release := func(key string, err error) bool {
				h.mu.Lock()
				ch := h.parked[key]
				delete(h.parked, key)
				h.mu.Unlock()
				if ch == nil {
					return false
				}
				ch <- err
				return true
			}
			for _, a := range plan {
				switch a.Kind {
				case "release":
					// the parked gate of the drawn service if any, otherwise the first parked one
					h.mu.Lock()
					var keys []string
					for k := range h.parked {
						keys = append(keys, k)
					}
					h.mu.Unlock()
					sort.Strings(keys)
					pick := ""
					for _, k := range keys {
						if strings.HasSuffix(k, fmt.Sprintf(":%d", a.Svc)) {
							pick = k
						}
					}
					if pick == "" && len(keys) > 0 {
						pick = keys[a.Svc%len(keys)]
					}
					if pick == "" {
						continue
					}
					var err error
					if a.Err {
						err = errors.New("boom-" + pick)
						nt = true
						if strings.HasPrefix(pick, "start:") {
							var i int
							fmt.Sscanf(pick, "start:%d", &i)
							startFailed[i] = true
						}
					}
					release(pick, err)
				case "runfail":
					h.mu.Lock()
					u := h.under[a.Svc]
					h.mu.Unlock()
					if u != nil && u.State() == services.Running && !h.selfStop[a.Svc] {
						h.mu.Lock()
						h.selfStop[a.Svc] = true
						h.mu.Unlock()
						runFail[a.Svc] <- errors.New("run-failed")
						nt = true
					}
				case "stop":
					if !stopped {
						for _, w := range wrapperOf {
							if w.State() == services.Starting {
								nt = true // stop during start-up
							}
						}
						mgr.StopAsync()
						stopped = true
					}
				case "tick":
					time.Sleep(time.Second)
				case "longtick":
					// start and stop latencies are arbitrary: nothing may give up waiting after some minutes or hours
					time.Sleep(time.Duration(7+a.Svc*40) * time.Minute)
				}
				vx.Wait()
				h.mu.Lock()
				v := h.violation
				h.mu.Unlock()
				if v != "" {
					failure = v
					return
				}
			}
			// drive everything to the end: stop, release every gate successfully
			if !stopped {
				mgr.StopAsync()
			}
			for k := 0; k < 6*n+6; k++ {
				vx.Wait()
				h.mu.Lock()
				var keys []string
				for key := range h.parked {
					keys = append(keys, key)
				}
				h.mu.Unlock()
				if len(keys) == 0 {
					break
				}
				sort.Strings(keys)
				release(keys[0], nil)
			}
			vx.Wait()
			h.mu.Lock()
			v := h.violation
			tlCopy := append([]string{}, h.timeline...)
			h.mu.Unlock()
			if v != "" {
				failure = v + fmt.Sprintf(" (timeline %v)", tlCopy)
				return
			}
			if !mgr.IsStopped() {
				failure = fmt.Sprintf("the modules did not all stop: %v (timeline %v)", statesOf(wrapperOf), tlCopy)
				return
			}
			// a dependency that failed to start: dependants never start and fail as well
			for x := 0; x < n; x++ {
				w, ok := wrapperOf[x]
				if !ok {
					continue
				}
				for d := range g.reach(x) {
					if startFailed[d] && wrapperOf[d] != nil {
						h.mu.Lock()
						st := h.started[x]
						h.mu.Unlock()
						if st {
							failure = fmt.Sprintf("m%d's service was started although its dependency m%d failed to start (timeline %v)", x, d, tlCopy)
							return
						}
						if w.State() != services.Failed {
							failure = fmt.Sprintf("m%d ended %v although its dependency m%d failed to start", x, w.State(), d)
							return
						}
					}
				}
			}
			// every started underlying service ended in a terminal state, each function at most once
			cnt := map[string]int{}
			for _, e := range tlCopy {
				cnt[e]++
				if cnt[e] > 1 {
					failure = fmt.Sprintf("%s entered twice (timeline %v)", e, tlCopy)
					return
				}
			}
		})
		vx.Eval(1)
		if nt {
			vx.NonTrivial(vx.FP("rt", fmt.Sprint(g), fmt.Sprint(hasSvc), fmt.Sprint(targets), fmt.Sprint(plan)))
		}
		if failure != "" {
			rt.Fatalf("%s\ndeps=%v hasService=%v targets=%v plan=%v", failure, g.Deps, hasSvc, targets, plan)
		}
		if vx.WantSample("runtime_plan") && nt && n <= 4 && len(plan) <= 10 {
			vx.Sample("runtime_plan", map[string]any{"deps": fmt.Sprint(g.Deps), "has_service": hasSvc, "plan": fmt.Sprint(plan)})
		}
	})
}

func statesOf(ws map[int]services.Service) string {
	var out []string
	for i, w := range ws {
		out = append(out, fmt.Sprintf("m%d=%v", i, w.State()))
	}
	sort.Strings(out)
	return strings.Join(out, " ")
}
