// Package c14: reported token ranges coincide with key ownership and tile the key space.
package c14

import (
	"errors"
	"fmt"
	"math"
	"sort"
	"testing"
	"time"

	"pgregory.net/rapid"

	"github.com/grafana/dskit/ring"

	"verifharness/internal/fakekv"
	"verifharness/internal/vx"
)

func TestMain(m *testing.M) {
	vx.Rule("a layout is non-trivial when a token in {0,1,2^32-1} is claimed or two adjacent alphabet tokens have different owners; distinct = distinct (kind, zones, layout) fingerprint")
	vx.Assume("instances are ACTIVE with fresh heartbeats so that lookups never filter (the method is documented for zone-aware rings with RF == zones)")
	vx.Assume("partition rings contain only active partitions (GetTokenRangesForPartition documents that it ignores states)")
	vx.Main(m)
}

const maxU = math.MaxUint32

// alphabet of the exhaustive layouts: boundary tokens plus two mid values.
var alphabet = []uint32{0, 1, 2, 0x40000000, 0xC0000000, maxU - 2, maxU - 1, maxU}

type layout struct {
	Zones  int                 `json:"zones"`
	Owners map[string][]uint32 `json:"owners"` // id -> tokens; id prefix "zN-" gives the zone
	ZoneOf map[string]string   `json:"zone_of"`
	// members flagged read-only (lookups by key and token ranges do not treat them differently), and
	// members whose token list was written unsorted (an older or foreign writer on a store that does not
	// normalise; the ring client sorts what it reads)
	ReadOnly map[string]bool `json:"read_only,omitempty"`
	Unsorted map[string]bool `json:"unsorted,omitempty"`
}

func (l layout) desc(now time.Time) *ring.Desc {
	d := ring.NewDesc()
	for id, toks := range l.Owners {
		tk := append([]uint32(nil), toks...)
		sort.Slice(tk, func(a, b int) bool { return tk[a] < tk[b] })
		if l.Unsorted[id] && len(tk) > 1 {
			// rotate by one and swap the ends: never ascending
			tk = append(tk[1:], tk[0])
		}
		in := ring.InstanceDesc{Id: id, Addr: id + ":1", Zone: l.ZoneOf[id], Tokens: tk, State: ring.ACTIVE,
			Timestamp: now.Add(time.Hour).Unix(), RegisteredTimestamp: now.Add(-time.Hour).Unix()}
		if l.ReadOnly[id] {
			in.ReadOnly, in.ReadOnlyUpdatedTimestamp = true, now.Add(-time.Minute).Unix()
		}
		d.Ingesters[id] = in
	}
	return d
}

func keysFor(tokens []uint32) []uint32 {
	seen := map[uint32]bool{}
	var keys []uint32
	add := func(k uint32) {
		if !seen[k] {
			seen[k] = true
			keys = append(keys, k)
		}
	}
	for _, t := range tokens {
		add(t - 1)
		add(t)
		add(t + 1)
	}
	for _, k := range []uint32{0, 1, maxU, 1 << 31, 12345} {
		add(k)
	}
	return keys
}

func nontrivialLayout(owner map[uint32]string) bool {
	for _, t := range []uint32{0, 1, maxU} {
		if owner[t] != "" {
			return true
		}
	}
	for i := 0; i+1 < len(alphabet); i++ {
		a, b := owner[alphabet[i]], owner[alphabet[i+1]]
		if a != "" && b != "" && a != b {
			return true
		}
	}
	return false
}

// checkTiling: the closed ranges of all owners, sorted, must cover [0, 2^32) exactly once.
func checkTiling(all map[string]ring.TokenRanges) error {
	type rg struct {
		s, e uint32
		who  string
	}
	var rs []rg
	for who, tr := range all {
		if len(tr)%2 != 0 {
			return fmt.Errorf("%s: odd number of range bounds %v", who, tr)
		}
		for i := 0; i < len(tr); i += 2 {
			if tr[i] > tr[i+1] {
				return fmt.Errorf("%s: range start > end in %v", who, tr)
			}
			if i > 0 && tr[i] <= tr[i-1] {
				return fmt.Errorf("%s: ranges not sorted/disjoint %v", who, tr)
			}
			rs = append(rs, rg{tr[i], tr[i+1], who})
		}
	}
	if len(rs) == 0 {
		return fmt.Errorf("no ranges at all")
	}
	sort.Slice(rs, func(a, b int) bool { return rs[a].s < rs[b].s })
	if rs[0].s != 0 {
		return fmt.Errorf("gap at key 0: first range starts at %d (%s)", rs[0].s, rs[0].who)
	}
	for i := 1; i < len(rs); i++ {
		if uint64(rs[i].s) != uint64(rs[i-1].e)+1 {
			return fmt.Errorf("gap/overlap between [%d,%d](%s) and [%d,%d](%s)", rs[i-1].s, rs[i-1].e, rs[i-1].who, rs[i].s, rs[i].e, rs[i].who)
		}
	}
	if rs[len(rs)-1].e != maxU {
		return fmt.Errorf("gap at the top: last range ends at %d", rs[len(rs)-1].e)
	}
	return nil
}

// checkInstanceLayout pushes the layout into r and checks ranges <=> lookup and tiling per zone.
func checkInstanceLayout(r *fakekv.PushRing, l layout, now time.Time) error {
	r.Push(l.desc(now))
	var allTokens []uint32
	zonesWithTokens := map[string]bool{}
	for id, toks := range l.Owners {
		allTokens = append(allTokens, toks...)
		if len(toks) > 0 {
			zonesWithTokens[l.ZoneOf[id]] = true
		}
	}
	if len(zonesWithTokens) != l.Zones {
		return nil // precondition: every zone holds a token (RF == number of zones with tokens)
	}
	keys := keysFor(allTokens)
	perZone := map[string]map[string]ring.TokenRanges{}
	for id, toks := range l.Owners {
		tr, err := r.GetTokenRangesForInstance(id)
		if err != nil {
			return fmt.Errorf("GetTokenRangesForInstance(%s): %v", id, err)
		}
		if len(toks) == 0 && len(tr) != 0 {
			return fmt.Errorf("token-less instance %s reports ranges %v", id, tr)
		}
		z := l.ZoneOf[id]
		if perZone[z] == nil {
			perZone[z] = map[string]ring.TokenRanges{}
		}
		perZone[z][id] = tr
		for _, k := range keys {
			rs, err := r.Get(k, ring.WriteNoExtend, nil, nil, nil)
			if err != nil {
				return fmt.Errorf("Get(%d): %v", k, err)
			}
			owns := false
			for _, in := range rs.Instances {
				if in.Id == id {
					owns = true
				}
			}
			if owns != tr.IncludesKey(k) {
				return fmt.Errorf("instance %s key %d: lookup assigns=%v, ranges %v include=%v", id, k, owns, tr, tr.IncludesKey(k))
			}
		}
	}
	for z, m := range perZone {
		if err := checkTiling(m); err != nil {
			return fmt.Errorf("zone %s: %v", z, err)
		}
	}
	return checkSubrings(r, l)
}

// checkSubrings: the same relation on shuffle-shard sub-rings (their token index is built by another
// code path: a per-zone merge of the members' tokens).
func checkSubrings(r *fakekv.PushRing, l layout) error {
	for _, tenant := range []string{"t1", "t2", "t3"} {
		for _, perZone := range []int{1, 2} {
			sub := r.ShuffleShard(tenant, perZone*l.Zones)
			rs, err := sub.GetAllHealthy(ring.Reporting)
			if errors.Is(err, ring.ErrEmptyRing) {
				continue // every eligible member is read-only: the shard is empty
			}
			if err != nil {
				return fmt.Errorf("sub-ring %s/%d: %v", tenant, perZone*l.Zones, err)
			}
			var toks []uint32
			zones := map[string]bool{}
			for _, in := range rs.Instances {
				toks = append(toks, in.Tokens...)
				if len(in.Tokens) > 0 {
					zones[in.Zone] = true
				}
			}
			if len(zones) != l.Zones {
				continue
			}
			vx.Class("subrings_checked", 1)
			keys := keysFor(toks)
			perZoneRanges := map[string]map[string]ring.TokenRanges{}
			for _, in := range rs.Instances {
				tr, err := sub.GetTokenRangesForInstance(in.Id)
				if err != nil {
					return fmt.Errorf("sub-ring %s/%d: GetTokenRangesForInstance(%s): %v", tenant, perZone*l.Zones, in.Id, err)
				}
				if perZoneRanges[in.Zone] == nil {
					perZoneRanges[in.Zone] = map[string]ring.TokenRanges{}
				}
				perZoneRanges[in.Zone][in.Id] = tr
				for _, k := range keys {
					got, err := sub.Get(k, ring.WriteNoExtend, nil, nil, nil)
					if err != nil {
						return fmt.Errorf("sub-ring %s/%d: Get(%d): %v", tenant, perZone*l.Zones, k, err)
					}
					owns := false
					for _, g := range got.Instances {
						if g.Id == in.Id {
							owns = true
						}
					}
					if owns != tr.IncludesKey(k) {
						return fmt.Errorf("sub-ring %s/%d (members %v): instance %s key %d: lookup assigns=%v, ranges %v include=%v", tenant, perZone*l.Zones, ids(rs), in.Id, k, owns, tr, tr.IncludesKey(k))
					}
				}
			}
			for z, m := range perZoneRanges {
				if err := checkTiling(m); err != nil {
					return fmt.Errorf("sub-ring %s/%d zone %s: %v", tenant, perZone*l.Zones, z, err)
				}
			}
		}
	}
	return nil
}

func ids(rs ring.ReplicationSet) []string {
	var out []string
	for _, in := range rs.Instances {
		out = append(out, in.Id)
	}
	sort.Strings(out)
	return out
}

func newRing(zones int) *fakekv.PushRing {
	return fakekv.NewRing(ring.Config{HeartbeatTimeout: time.Hour, ReplicationFactor: zones, ZoneAwarenessEnabled: true}, nil)
}

// layoutFromCode decodes base-(owners+1) digits: digit d of alphabet token i -> owner d-1 (0 = unclaimed).
func layoutFromCode(code, owners, zones int, withTokenless bool) (layout, map[uint32]string) {
	l := layout{Zones: zones, Owners: map[string][]uint32{}, ZoneOf: map[string]string{}}
	own := map[uint32]string{}
	c := code
	for _, t := range alphabet {
		d := c % (owners + 1)
		c /= owners + 1
		if d == 0 {
			continue
		}
		id := fmt.Sprintf("a%d", d)
		l.Owners[id] = append(l.Owners[id], t)
		l.ZoneOf[id] = "z0"
		own[t] = id
	}
	if withTokenless {
		l.Owners["a-none"] = nil
		l.ZoneOf["a-none"] = "z0"
	}
	// other zones: fixed instances with mid tokens that do not collide with the alphabet
	for z := 1; z < zones; z++ {
		id := fmt.Sprintf("b%d", z)
		l.Owners[id] = []uint32{uint32(z) * 1000, 0x80000000 + uint32(z)}
		l.ZoneOf[id] = fmt.Sprintf("z%d", z)
	}
	return l, own
}

func TestInstanceRangesEnum(t *testing.T) {
	now := time.Now()
	var l layout
	if vx.ReplayCase("TestInstanceRangesEnum", &l) {
		r := newRing(l.Zones)
		defer r.Stop()
		for i := 0; i < 500; i++ {
			if err := checkInstanceLayout(r, l, now); err != nil {
				t.Fatalf("replay: %v", err)
			}
		}
		return
	}
	type cfg struct{ owners, zones int }
	cfgs := []cfg{{3, 1}}
	if vx.Thorough() {
		cfgs = []cfg{{3, 1}, {3, 2}, {4, 1}, {3, 3}}
	}
	idx := 0
	for _, c := range cfgs {
		r := newRing(c.zones)
		total := 1
		for range alphabet {
			total *= c.owners + 1
		}
		for code := 1; code < total; code++ {
			idx++
			if !vx.Mine(idx) {
				continue
			}
			l, own := layoutFromCode(code, c.owners, c.zones, code%3 == 0)
			vx.Eval(1)
			if nontrivialLayout(own) {
				vx.NonTrivial(vx.FP("inst", c.zones, c.owners, code))
			}
			if code%9973 == 1 {
				vx.Sample("instance_layout_enum", l)
			}
			if err := checkInstanceLayout(r, l, now); err != nil {
				r.Stop()
				vx.Failf(t, "TestInstanceRangesEnum", l, "%v\nlayout=%+v", err, l)
			}
		}
		r.Stop()
		vx.Exhaustive(fmt.Sprintf("instance rings: every assignment of the 8 alphabet tokens %v to <=%d owners of one zone (%d zones, RF=zones)", alphabet, c.owners, c.zones))
	}
}

func partitionDesc(owners map[int32][]uint32) *ring.PartitionRingDesc {
	d := ring.NewPartitionRingDesc()
	for id, toks := range owners {
		tk := append([]uint32(nil), toks...)
		sort.Slice(tk, func(a, b int) bool { return tk[a] < tk[b] })
		d.Partitions[id] = ring.PartitionDesc{Id: id, Tokens: tk, State: ring.PartitionActive, StateTimestamp: 1}
	}
	return d
}

func checkPartitionLayout(owners map[int32][]uint32) error {
	return checkPartitionLayoutStates(owners, nil)
}

// checkPartitionLayoutStates: partitions listed in states are not active. Lookups (on the whole ring) skip
// them, so the ranges that coincide with the lookups are those reported by the ring of the active partitions.
func checkPartitionLayoutStates(owners map[int32][]uint32, states map[int32]ring.PartitionState) error {
	d := partitionDesc(owners)
	if len(states) > 0 {
		full := partitionDesc(owners)
		for pid, st := range states {
			pd := full.Partitions[pid]
			pd.State = st
			full.Partitions[pid] = pd
			delete(d.Partitions, pid)
		}
		if len(d.Partitions) == 0 {
			return nil
		}
		whole, err := ring.NewPartitionRing(*full)
		if err != nil {
			return fmt.Errorf("NewPartitionRing: %v", err)
		}
		act, err := ring.NewPartitionRing(*d)
		if err != nil {
			return fmt.Errorf("NewPartitionRing (active partitions): %v", err)
		}
		var all []uint32
		for _, t := range owners {
			all = append(all, t...)
		}
		rangesOf := map[string]ring.TokenRanges{}
		for pid := range d.Partitions {
			tr, err := act.GetTokenRangesForPartition(pid)
			if err != nil {
				return fmt.Errorf("GetTokenRangesForPartition(%d): %v", pid, err)
			}
			rangesOf[fmt.Sprint(pid)] = tr
			for _, k := range keysFor(all) {
				owner, err := whole.ActivePartitionForKey(k)
				if err != nil {
					return fmt.Errorf("ActivePartitionForKey(%d): %v", k, err)
				}
				if (owner == pid) != tr.IncludesKey(k) {
					return fmt.Errorf("partition %d key %d: the ring (states %v) routes the key to %d, the ranges %v of the active partitions' ring include=%v", pid, k, states, owner, tr, tr.IncludesKey(k))
				}
			}
		}
		return checkTiling(rangesOf)
	}
	pr, err := ring.NewPartitionRing(*d)
	if err != nil {
		return fmt.Errorf("NewPartitionRing: %v", err)
	}
	var all []uint32
	for _, t := range owners {
		all = append(all, t...)
	}
	keys := keysFor(all)
	rangesOf := map[string]ring.TokenRanges{}
	for pid := range owners {
		tr, err := pr.GetTokenRangesForPartition(pid)
		if err != nil {
			return fmt.Errorf("GetTokenRangesForPartition(%d): %v", pid, err)
		}
		rangesOf[fmt.Sprint(pid)] = tr
		for _, k := range keys {
			owner, err := pr.ActivePartitionForKey(k)
			if err != nil {
				return fmt.Errorf("ActivePartitionForKey(%d): %v", k, err)
			}
			if (owner == pid) != tr.IncludesKey(k) {
				return fmt.Errorf("partition %d key %d: routed to %d, ranges %v include=%v", pid, k, owner, tr, tr.IncludesKey(k))
			}
		}
	}
	return checkTiling(rangesOf)
}

func TestPartitionRangesEnum(t *testing.T) {
	var rc map[string][]uint32
	if vx.ReplayCase("TestPartitionRangesEnum", &rc) {
		owners := map[int32][]uint32{}
		for k, v := range rc {
			var id int32
			fmt.Sscan(k, &id)
			owners[id] = v
		}
		if err := checkPartitionLayout(owners); err != nil {
			t.Fatalf("replay: %v", err)
		}
		return
	}
	nOwners := vx.Pick(3, 4)
	total := 1
	for range alphabet {
		total *= nOwners + 1
	}
	for code := 1; code < total; code++ {
		if !vx.Mine(code) {
			continue
		}
		owners := map[int32][]uint32{}
		own := map[uint32]string{}
		c := code
		for _, tk := range alphabet {
			d := c % (nOwners + 1)
			c /= nOwners + 1
			if d == 0 {
				continue
			}
			owners[int32(d-1)] = append(owners[int32(d-1)], tk)
			own[tk] = fmt.Sprint(d)
		}
		vx.Eval(1)
		if nontrivialLayout(own) {
			vx.NonTrivial(vx.FP("part", nOwners, code))
		}
		if code%9973 == 1 {
			vx.Sample("partition_layout_enum", owners)
		}
		if err := checkPartitionLayout(owners); err != nil {
			js := map[string][]uint32{}
			for k, v := range owners {
				js[fmt.Sprint(k)] = v
			}
			vx.Failf(t, "TestPartitionRangesEnum", js, "%v\npartitions=%v", err, owners)
		}
	}
	vx.Exhaustive(fmt.Sprintf("partition rings: every assignment of the 8 alphabet tokens %v to <=%d active partitions", alphabet, nOwners))
}

func drawToken(rt *rapid.T, used map[uint32]bool) (uint32, bool) {
	for try := 0; try < 8; try++ {
		var tk uint32
		switch rapid.IntRange(0, 3).Draw(rt, "tkKind") {
		case 0:
			tk = rapid.SampledFrom([]uint32{0, 1, 2, 3, 5, 8, 1<<31 - 1, 1 << 31, maxU - 2, maxU - 1, maxU}).Draw(rt, "tk")
		case 1:
			// next to an existing token: adjacent tokens of different owners
			base := uint32(0)
			for u := range used {
				base = u
				break
			}
			_ = base
			tk = rapid.Uint32Range(0, 40).Draw(rt, "tkSmall")
		default:
			tk = rapid.Uint32().Draw(rt, "tkAny")
		}
		if !used[tk] {
			used[tk] = true
			return tk, true
		}
	}
	return 0, false
}

func TestInstanceRangesRapid(t *testing.T) {
	now := time.Now()
	rapid.Check(t, func(rt *rapid.T) {
		nz := rapid.IntRange(1, 3).Draw(rt, "zones")
		if rapid.IntRange(0, 5).Draw(rt, "manyZones") == 0 {
			nz = rapid.IntRange(6, 8).Draw(rt, "zonesMany")
			vx.Class("layouts_with_six_or_more_zones", 1)
		}
		nInst := rapid.IntRange(nz, vx.Pick(12, 30)).Draw(rt, "instances")
		maxTok := rapid.SampledFrom([]int{1, 2, 3, 8, 64}).Draw(rt, "maxTokens")
		l := layout{Zones: nz, Owners: map[string][]uint32{}, ZoneOf: map[string]string{}, ReadOnly: map[string]bool{}, Unsorted: map[string]bool{}}
		used := map[uint32]bool{}
		own := map[uint32]string{}
		roKind := rapid.IntRange(0, 3).Draw(rt, "readOnlyKind") // 0,1: none; 2: some members; 3: every member of one zone
		roZone := rapid.IntRange(0, nz-1).Draw(rt, "readOnlyZone")
		someUnsorted := rapid.IntRange(0, 3).Draw(rt, "someUnsorted") == 0
		for i := 0; i < nInst; i++ {
			id := fmt.Sprintf("i%02d", i)
			z := i % nz
			if i >= nz {
				z = rapid.IntRange(0, nz-1).Draw(rt, "zone")
			}
			l.ZoneOf[id] = fmt.Sprintf("z%d", z)
			if (roKind == 2 && rapid.IntRange(0, 2).Draw(rt, "ro") == 0) || (roKind == 3 && z == roZone) {
				l.ReadOnly[id] = true
			}
			if someUnsorted && rapid.Bool().Draw(rt, "unsorted") {
				l.Unsorted[id] = true
			}
			nt := rapid.IntRange(0, maxTok).Draw(rt, "nt")
			if i < nz && nt == 0 {
				nt = 1
			}
			l.Owners[id] = nil
			for j := 0; j < nt; j++ {
				if tk, ok := drawToken(rt, used); ok {
					l.Owners[id] = append(l.Owners[id], tk)
					if z == 0 {
						own[tk] = id
					}
				}
			}
		}
		if len(l.ReadOnly) > 0 {
			vx.Class("layouts_with_read_only_members", 1)
		}
		if len(l.Unsorted) > 0 {
			vx.Class("layouts_with_unsorted_token_lists", 1)
		}
		r := newRing(nz)
		defer r.Stop()
		vx.Eval(1)
		if nontrivialLayout(own) {
			vx.NonTrivial(vx.FP("inst-rapid", fmt.Sprint(l)))
		}
		if vx.WantSample("instance_layout_random") && nInst <= 5 {
			vx.Sample("instance_layout_random", l)
		}
		for rep := 0; rep < 3; rep++ { // map-iteration order varies between builds
			if err := checkInstanceLayout(r, l, now); err != nil {
				rt.Fatalf("%v\nlayout=%+v", err, l)
			}
		}
	})
}

func TestPartitionRangesRapid(t *testing.T) {
	rapid.Check(t, func(rt *rapid.T) {
		n := rapid.IntRange(1, vx.Pick(12, 30)).Draw(rt, "partitions")
		maxTok := rapid.SampledFrom([]int{1, 2, 3, 8, 64}).Draw(rt, "maxTokens")
		owners := map[int32][]uint32{}
		used := map[uint32]bool{}
		own := map[uint32]string{}
		for p := 0; p < n; p++ {
			nt := rapid.IntRange(1, maxTok).Draw(rt, "nt")
			for j := 0; j < nt; j++ {
				if tk, ok := drawToken(rt, used); ok {
					owners[int32(p)] = append(owners[int32(p)], tk)
					own[tk] = fmt.Sprint(p)
				}
			}
		}
		if len(owners) == 0 {
			return
		}
		vx.Eval(1)
		if nontrivialLayout(own) {
			vx.NonTrivial(vx.FP("part-rapid", fmt.Sprint(owners)))
		}
		if vx.WantSample("partition_layout_random") && n <= 4 {
			vx.Sample("partition_layout_random", fmt.Sprint(owners))
		}
		if err := checkPartitionLayout(owners); err != nil {
			rt.Fatalf("%v\npartitions=%v", err, owners)
		}
		// the same layout with some partitions not active
		states := map[int32]ring.PartitionState{}
		for p := range owners {
			if st := rapid.SampledFrom([]ring.PartitionState{ring.PartitionActive, ring.PartitionActive, ring.PartitionInactive, ring.PartitionPending}).Draw(rt, "state"); st != ring.PartitionActive {
				states[p] = st
			}
		}
		if len(states) > 0 && len(states) < len(owners) {
			vx.Class("partition_layouts_with_partitions_that_are_not_active", 1)
			if err := checkPartitionLayoutStates(owners, states); err != nil {
				rt.Fatalf("%v\npartitions=%v", err, owners)
			}
		}
	})
}
