// Package c08: a lifecycler edits only its own ring entry and follows the state machine.
package c08

import (
	"context"
	"fmt"
	"os"
	"path/filepath"
	"reflect"
	"sort"
	"strings"
	"testing"
	"time"

	"github.com/go-kit/log"
	"pgregory.net/rapid"

	"github.com/grafana/dskit/kv/consul"
	"github.com/grafana/dskit/ring"
	"github.com/grafana/dskit/services"

	"verifharness/internal/fakekv"
	"verifharness/internal/lcx"
	"verifharness/internal/vx"
)

func TestMain(m *testing.M) {
	vx.Rule("a run is non-trivial when >= 2 lifecyclers are alive at the same time and at least one stop or restart happens; evaluations count the recorded ring writes that were checked; distinct = distinct (configurations, operation order) fingerprint")
	vx.Assume("virtual clock; the shared store is the repository's in-memory Consul client; every lifecycler writes through its own recorder, which attributes each committed write to its writer and incarnation")
	vx.Assume("basic lifecycler with the standard delegates: the first write of an incarnation may publish the register delegate's state whatever the previous state; externally requested state changes use legal targets only (the basic lifecycler documents that it does not validate them)")
	vx.Assume("basic lifecycler: its standard leave-on-stopping delegate publishes LEAVING on shutdown from whatever state it is in (forward along pending, joining, active, leaving); the full lifecycler only leaves from ACTIVE")
	vx.Assume("the token-count clause is applied to automatic joins; an externally requested ACTIVE state or a token claim is the caller's responsibility")
	vx.Assume("heartbeat freshness is owed from max(entry timestamp, start of the incarnation): a restarted lifecycler that finds its entry unchanged writes nothing until its first tick")
	vx.Main(m)
}

var allowedEdge = map[[2]ring.InstanceState]bool{
	{ring.PENDING, ring.JOINING}: true, {ring.JOINING, ring.ACTIVE}: true, {ring.PENDING, ring.ACTIVE}: true,
	{ring.ACTIVE, ring.LEAVING}: true, {ring.JOINING, ring.PENDING}: true, {ring.LEAVING, ring.ACTIVE}: true,
}

type incarnation struct {
	id         string
	idx        int
	n          int
	lc         *lcx.LC
	rec        *fakekv.Recorder
	startedAt  time.Time
	fresh      bool // no entry in the ring and no tokens file when it started
	running    bool
	ready      bool
	firstSeq   int             // sequence number of the first record of this incarnation (-1 = none yet)
	claims     map[string]bool // instances whose tokens this incarnation was asked to take over
	fileTokens map[uint32]bool // tokens found in the tokens file at start: inherited as they are
	published  map[uint32]bool // tokens this incarnation has published before: re-inserted as remembered after a loss of its entry
}

type step struct {
	Kind  string
	Who   int
	From  int
	State ring.InstanceState
	Dur   time.Duration
}

func genCfg(rt *rapid.T, i int, dir string) lcx.Cfg {
	c := lcx.Cfg{
		ID:         fmt.Sprintf("ing-%d", i),
		Basic:      rapid.Bool().Draw(rt, "basic"),
		NumTokens:  rapid.IntRange(1, 8).Draw(rt, "numTokens"),
		JoinAfter:  rapid.SampledFrom([]time.Duration{0, time.Second, 7 * time.Second}).Draw(rt, "joinAfter"),
		Observe:    rapid.SampledFrom([]time.Duration{0, 0, time.Second, 7 * time.Second}).Draw(rt, "observe"),
		HBPeriod:   rapid.SampledFrom([]time.Duration{0, time.Second, 5 * time.Second, 5 * time.Second}).Draw(rt, "heartbeat"),
		Unregister: rapid.Bool().Draw(rt, "unregister"),
		RingHealth: rapid.Bool().Draw(rt, "ringHealth"),
		GenSeed:    uint32(rapid.IntRange(0, 31).Draw(rt, "genSeed")),
		RegState:   rapid.SampledFrom([]ring.InstanceState{ring.ACTIVE, ring.ACTIVE, ring.JOINING}).Draw(rt, "registerState"),
	}
	if !c.Basic && c.HBPeriod == 0 {
		c.HBPeriod = time.Second // the full lifecycler rejects a zero heartbeat period
	}
	if rapid.IntRange(0, 2).Draw(rt, "smallSpace") > 0 {
		c.GenSpace = 48
	}
	// the full lifecycler reports ready only after having been ready for this long (every probe in between
	// looks at the ring again)
	c.MinReady = rapid.SampledFrom([]time.Duration{0, 0, 2 * time.Second, 6 * time.Second}).Draw(rt, "minReady")
	if rapid.IntRange(0, 3).Draw(rt, "tokensFile") == 0 {
		c.TokensPath = filepath.Join(dir, c.ID+".tokens")
	}
	if c.Basic && rapid.IntRange(0, 3).Draw(rt, "autoForget") == 0 {
		c.AutoForget = rapid.SampledFrom([]time.Duration{20 * time.Second, 2 * time.Minute}).Draw(rt, "forgetPeriod")
	}
	return c
}

func entryOf(v interface{}, id string) (ring.InstanceDesc, bool) {
	d, _ := v.(*ring.Desc)
	if d == nil {
		return ring.InstanceDesc{}, false
	}
	e, ok := d.Ingesters[id]
	return e, ok
}

func TestLifecyclersRapid(t *testing.T) {
	rapid.Check(t, func(rt *rapid.T) {
		dir, err := os.MkdirTemp("", "c08")
		if err != nil {
			rt.Fatalf("tempdir: %v", err)
		}
		defer os.RemoveAll(dir)
		n := rapid.IntRange(1, 5).Draw(rt, "lifecyclers")
		cfgs := make([]lcx.Cfg, n)
		offsets := make([]time.Duration, n)
		for i := range cfgs {
			cfgs[i] = genCfg(rt, i, dir)
			offsets[i] = time.Duration(rapid.IntRange(1, 900).Draw(rt, "startOffsetMs")) * time.Millisecond
		}
		var steps []step
		nSteps := rapid.IntRange(3, vx.Pick(30, 45)).Draw(rt, "steps")
		durs := []time.Duration{time.Millisecond, 300 * time.Millisecond, time.Second, 2 * time.Second, 5 * time.Second, 7 * time.Second, 12 * time.Second, 25 * time.Second, 70 * time.Second, 3 * time.Minute}
		kinds := []string{"start", "start", "start", "stop", "restart", "advance", "advance", "advance", "advance", "changeState", "changeState", "readonly", "ready", "ready", "claim", "conflict", "conflict", "lost-race", "lost-race"}
		for i := 0; i < nSteps; i++ {
			steps = append(steps, step{
				Kind:  kinds[vx.Mix(rapid.Uint64().Draw(rt, "kind"), len(kinds))],
				Who:   rapid.IntRange(0, n-1).Draw(rt, "who"),
				From:  rapid.IntRange(0, n-1).Draw(rt, "from"),
				State: rapid.SampledFrom([]ring.InstanceState{ring.ACTIVE, ring.LEAVING, ring.PENDING, ring.JOINING, ring.LEFT}).Draw(rt, "targetState"),
				Dur:   rapid.SampledFrom(durs).Draw(rt, "advance"),
			})
		}
		var failure string
		var hist []string
		nontrivial := false
		checked := 0
		vx.Bubble(t, func(b *vx.B) {
			t0 := time.Now()
			store, closer := consul.NewInMemoryClient(ring.GetCodec(), log.NewNopLogger(), nil)
			b.Cleanup(func() { _ = closer.Close() })
			lg := &fakekv.Log{}
			tampered := map[string]bool{} // instances whose entry the harness's conflict resolution has edited
			racer := 0
			var incs []*incarnation
			cur := make([]*incarnation, n)
			b.Cleanup(func() {
				for _, in := range cur {
					if in != nil && in.running {
						in.lc.Svc.StopAsync()
					}
				}
				time.Sleep(10 * time.Second)
			})
			fail := func(f string, a ...any) {
				if failure == "" {
					failure = fmt.Sprintf(f, a...)
				}
			}
			logf := func(f string, a ...any) {
				hist = append(hist, fmt.Sprintf("t=%v ", time.Since(t0))+fmt.Sprintf(f, a...))
			}
			getRing := func() *ring.Desc {
				v, _ := store.Get(context.Background(), lcx.RingKey)
				return lcx.CloneDesc(v).(*ring.Desc)
			}
			start := func(i int) {
				time.Sleep(offsets[i])
				_, exists := getRing().Ingesters[cfgs[i].ID]
				fileExists := false
				if cfgs[i].TokensPath != "" {
					if _, err := os.Stat(cfgs[i].TokensPath); err == nil {
						fileExists = true
					}
				}
				inc := &incarnation{id: cfgs[i].ID, idx: i, n: len(incs), fresh: !exists && !fileExists, firstSeq: -1, fileTokens: map[uint32]bool{}, claims: map[string]bool{}, published: map[uint32]bool{}}
				if fileExists {
					if toks, err := ring.LoadTokensFromFile(cfgs[i].TokensPath); err == nil {
						for _, tk := range toks {
							inc.fileTokens[tk] = true
						}
					}
				}
				inc.rec = &fakekv.Recorder{Client: store, Writer: fmt.Sprintf("%s#%d", cfgs[i].ID, inc.n), Log: lg, Clone: lcx.CloneDesc}
				lc, err := lcx.New(cfgs[i], inc.rec)
				if err != nil {
					fail("building lifecycler %v: %v", cfgs[i], err)
					return
				}
				inc.lc = lc
				inc.startedAt = time.Now()
				if err := services.StartAndAwaitRunning(context.Background(), lc.Svc); err != nil {
					fail("lifecycler %s failed to start: %v", cfgs[i].ID, err)
					return
				}
				inc.running = true
				incs = append(incs, inc)
				cur[i] = inc
				alive := 0
				for _, x := range cur {
					if x != nil && x.running {
						alive++
					}
				}
				logf("start %v (entry exists=%v, tokens file=%v)", cfgs[i], exists, fileExists)
			}
			stop := func(i int) {
				in := cur[i]
				if in == nil || !in.running {
					return
				}
				alive := 0
				for _, x := range cur {
					if x != nil && x.running {
						alive++
					}
				}
				if alive >= 2 {
					nontrivial = true
				}
				if err := services.StopAndAwaitTerminated(context.Background(), in.lc.Svc); err != nil {
					fail("lifecycler %s failed while stopping: %v", in.id, err)
				}
				in.running = false
				logf("stop %s", in.id)
			}
			freshness := func() {
				vx.Wait()
				d := getRing()
				now := time.Now()
				for _, in := range cur {
					if in == nil || !in.running || in.lc.Cfg.HBPeriod == 0 {
						continue
					}
					e, ok := d.Ingesters[in.id]
					if !ok {
						// forgotten by somebody's auto-forget: it re-registers at its next heartbeat
						vx.Class("running_without_entry", 1)
						continue
					}
					last := time.Unix(e.Timestamp, 0)
					if in.startedAt.After(last) {
						last = in.startedAt
					}
					bound := in.lc.Cfg.HBPeriod + time.Second
					if in.lc.Cfg.Basic && in.lc.Cfg.Observe > 0 {
						// known finding F6: the basic lifecycler restarts its heartbeat ticker when it leaves the
						// observe phase, so one gap of up to two periods is possible there
						bound = 2*in.lc.Cfg.HBPeriod + time.Second
						vx.Class("freshness_checks_with_F6_bound", 1)
					}
					vx.Class("freshness_checks", 1)
					if age := now.Sub(last); age > bound {
						fail("%s: heartbeat is %v old at t=%v, heartbeat period %v (entry timestamp %d, incarnation started %v)", in.id, age, time.Since(t0), in.lc.Cfg.HBPeriod, e.Timestamp, in.startedAt.Sub(t0))
					}
				}
			}
			for si, s := range steps {
				if failure != "" {
					break
				}
				in := cur[s.Who]
				switch s.Kind {
				case "start":
					if in == nil || !in.running {
						start(s.Who)
					}
				case "stop":
					stop(s.Who)
				case "restart":
					if in != nil && in.running {
						stop(s.Who)
						start(s.Who)
					}
				case "advance":
					time.Sleep(s.Dur)
					logf("advance %v", s.Dur)
					freshness()
				case "changeState":
					if in == nil || !in.running {
						continue
					}
					from := in.lc.State()
					legal := allowedEdge[[2]ring.InstanceState{from, s.State}] && !(from == ring.LEAVING && s.State == ring.ACTIVE) && !(in.lc.Full != nil && from == ring.JOINING && s.State == ring.PENDING && false)
					if in.lc.Basic != nil {
						if !legal || s.State == from {
							continue // the basic lifecycler does not validate: only legal targets are requested
						}
						in.rec.SetExplicit(true)
						err := in.lc.Basic.ChangeState(context.Background(), s.State)
						in.rec.SetExplicit(false)
						logf("%s ChangeState(%v) from %v: %v", in.id, s.State, from, err)
						if err != nil {
							fail("step %d: basic lifecycler %s ChangeState(%v): %v", si, in.id, s.State, err)
						}
						continue
					}
					in.rec.SetExplicit(true)
					err := in.lc.Full.ChangeState(context.Background(), s.State)
					in.rec.SetExplicit(false)
					logf("%s ChangeState(%v) from %v: %v", in.id, s.State, from, err)
					if legal != (err == nil) {
						fail("step %d: %s ChangeState %v -> %v returned %v, the transition table says legal=%v", si, in.id, from, s.State, err, legal)
					}
					if err == nil && in.lc.State() != s.State {
						fail("step %d: %s accepted ChangeState(%v) but reports %v", si, in.id, s.State, in.lc.State())
					}
					if err != nil && in.lc.State() != from {
						fail("step %d: %s rejected ChangeState(%v) but its state moved %v -> %v", si, in.id, s.State, from, in.lc.State())
					}
				case "readonly":
					if in == nil || !in.running {
						continue
					}
					var err error
					in.rec.SetExplicit(true)
					if in.lc.Full != nil {
						ro, _ := in.lc.Full.GetReadOnlyState()
						err = in.lc.Full.ChangeReadOnlyState(context.Background(), !ro)
					} else {
						ro, _ := in.lc.Basic.GetReadOnlyState()
						err = in.lc.Basic.ChangeReadOnlyState(context.Background(), !ro)
					}
					in.rec.SetExplicit(false)
					logf("%s toggles read-only: %v", in.id, err)
					if err != nil {
						fail("step %d: %s read-only toggle: %v", si, in.id, err)
					}
				case "claim":
					if in == nil || !in.running || in.lc.Full == nil || s.From == s.Who {
						continue
					}
					d := getRing()
					if len(d.Ingesters) == 0 {
						continue
					}
					if src := cur[s.From]; src != nil && src.running {
						continue // tokens are handed over by an instance that has stopped (left its entry behind)
					}
					in.claims[cfgs[s.From].ID] = true
					in.rec.SetExplicit(true)
					err := in.lc.Full.ClaimTokensFor(context.Background(), cfgs[s.From].ID)
					in.rec.SetExplicit(false)
					logf("%s claims the tokens of %s: %v", in.id, cfgs[s.From].ID, err)
				case "lost-race":
					// constructed: the lifecycler's next write loses a race against another member's write (its
					// function is evaluated, the other write lands, the function is evaluated again on the new
					// content): what the other member wrote must survive
					if in == nil || !in.running {
						continue
					}
					racer++
					joiner := fmt.Sprintf("joiner-%d", racer)
					tok := uint32(4000000000) + uint32(racer)
					rival := func() {
						_ = store.CAS(context.Background(), lcx.RingKey, func(v interface{}) (interface{}, bool, error) {
							rd := ring.GetOrCreateRingDesc(v)
							// another member registers itself at this very moment
							rd.AddIngester(joiner, joiner+":1", "z", []uint32{tok}, ring.ACTIVE, time.Now(), false, time.Time{}, nil)
							return rd, true, nil
						})
					}
					if racer%2 == 0 {
						in.rec.Interpose = rival
					} else {
						// the other member's write lands immediately before the lifecycler's next write: whatever
						// the lifecycler read earlier no longer holds, its function is handed the new content
						in.rec.SetBefore(func() bool { rival(); return true })
						vx.Class("writes_preceded_by_another_members_registration", 1)
					}
					vx.Class("writes_that_lost_a_race", 1)
					nontrivial = true
					logf("the next write of %s loses a race against the registration of %s", in.id, joiner)
					time.Sleep(in.lc.Cfg.HBPeriod + time.Second)
				case "conflict":
					// constructed: what a gossip store's conflict resolution does to a joining instance — one of
					// its tokens disappears from its entry (the winner held it already) while it observes
					d := getRing()
					var joining []string
					for _, x := range cur {
						if x != nil && x.running {
							if e, ok := d.Ingesters[x.id]; ok && e.State == ring.JOINING && len(e.Tokens) > 0 {
								joining = append(joining, x.id)
							}
						}
					}
					if len(joining) == 0 {
						continue
					}
					sort.Strings(joining)
					loser := joining[s.From%len(joining)]
					tampered[loser] = true
					resolver := &fakekv.Recorder{Client: store, Writer: "conflict-resolution", Log: lg, Clone: lcx.CloneDesc}
					err := resolver.CAS(context.Background(), lcx.RingKey, func(v interface{}) (interface{}, bool, error) {
						rd := ring.GetOrCreateRingDesc(v)
						le, ok := rd.Ingesters[loser]
						if !ok || len(le.Tokens) == 0 {
							return nil, false, nil
						}
						le.Tokens = append([]uint32{}, le.Tokens[:len(le.Tokens)-1]...)
						rd.Ingesters[loser] = le
						return rd, true, nil
					})
					vx.Class("token_conflicts_resolved_against_a_joining_instance", 1)
					nontrivial = true
					logf("conflict resolution takes a token away from joining %s: %v", loser, err)
				case "ready":
					if in == nil || !in.running || in.lc.Full == nil {
						continue
					}
					err := in.lc.Full.CheckReady(context.Background())
					vx.Class("ready_probes", 1)
					if err == nil {
						vx.Class("ready_probes_passed", 1)
						if !in.ready {
							d := getRing()
							own, ok := d.Ingesters[in.id]
							now := time.Now()
							switch {
							case in.lc.State() != ring.ACTIVE:
								fail("step %d: %s reports ready in state %v", si, in.id, in.lc.State())
							case ok && own.State == ring.ACTIVE && len(own.Tokens) == 0 && tampered[in.id]:
								// the harness's own conflict resolution emptied the entry behind the lifecycler's back and
								// an external ChangeState(ACTIVE) skipped the re-check: the lifecycler holds tokens by its
								// own books and rewrites the entry at its next heartbeat
								vx.Class("ready_with_entry_emptied_by_the_harness", 1)
							case !ok || own.State != ring.ACTIVE || len(own.Tokens) == 0:
								fail("step %d: %s reports ready but its ring entry is %+v (exists=%v)", si, in.id, own, ok)
							case in.lc.Cfg.RingHealth:
								for id, e := range d.Ingesters {
									if e.State != ring.ACTIVE || now.Sub(time.Unix(e.Timestamp, 0)) > time.Minute {
										fail("step %d: %s reports ready with ring-health checking on, but member %s is %v with a heartbeat %v old", si, in.id, id, e.State, now.Sub(time.Unix(e.Timestamp, 0)))
									}
								}
							}
							in.ready = true
						}
					} else if in.ready {
						fail("step %d: %s was ready and is not any more: %v (readiness must latch)", si, in.id, err)
					}
				}
				vx.Wait()
			}
			if failure != "" {
				return
			}
			// ---- every recorded write
			byWriter := map[string]*incarnation{}
			for _, in := range incs {
				byWriter[fmt.Sprintf("%s#%d", in.id, in.n)] = in
			}
			for _, r := range lg.Snapshot() {
				in := byWriter[r.Writer]
				if in == nil {
					continue
				}
				checked++
				first := in.firstSeq == -1
				if first {
					in.firstSeq = r.Seq
				}
				w := in.id
				din, _ := r.In.(*ring.Desc)
				if din == nil {
					din = ring.NewDesc()
				}
				dout := r.Out.(*ring.Desc)
				cfg := in.lc.Cfg
				claim := r.Explicit && len(in.claims) > 0
				for id, before := range din.Ingesters {
					if id == w {
						continue
					}
					after, ok := dout.Ingesters[id]
					if !ok {
						age := r.At.Sub(time.Unix(before.Timestamp, 0))
						if cfg.Basic && cfg.AutoForget > 0 && age > cfg.AutoForget {
							vx.Class("auto_forgotten_entries", 1)
							continue
						}
						fail("%s removed the entry of %s (heartbeat %v old; auto-forget period %v)", r.Writer, id, age, cfg.AutoForget)
						return
					}
					if !reflect.DeepEqual(before, after) {
						if claim && in.claims[id] {
							b2 := before
							b2.Tokens = after.Tokens
							if len(after.Tokens) == 0 && reflect.DeepEqual(b2, after) {
								vx.Class("token_handovers", 1)
								continue
							}
						}
						fail("%s changed the entry of %s: %+v -> %+v", r.Writer, id, before, after)
						return
					}
				}
				for id := range dout.Ingesters {
					if _, ok := din.Ingesters[id]; !ok && id != w {
						fail("%s added an entry for %s", r.Writer, id)
						return
					}
				}
				before, had := din.Ingesters[w]
				after, has := dout.Ingesters[w]
				if has {
					if after.Id != w {
						fail("%s wrote its entry with id %q", r.Writer, after.Id)
						return
					}
					for k := 1; k < len(after.Tokens); k++ {
						if after.Tokens[k-1] >= after.Tokens[k] {
							fail("%s published tokens that are not sorted and distinct: %v", r.Writer, after.Tokens)
							return
						}
					}
				}
				if had && has {
					if before.State != after.State {
						vx.Class(fmt.Sprintf("edge_%v_to_%v", before.State, after.State), 1)
						ok := allowedEdge[[2]ring.InstanceState{before.State, after.State}]
						if cfg.Basic && first && after.State == cfg.RegState {
							ok = true // re-registration publishes the register delegate's state
						}
						if cfg.Basic && after.State == ring.LEAVING {
							ok = true // the standard leave-on-stopping delegate moves forward to LEAVING from whatever state
						}
						if !ok {
							fail("%s published the state edge %v -> %v (first write of the incarnation: %v)", r.Writer, before.State, after.State, first)
							return
						}
					}
					if after.Timestamp < before.Timestamp {
						fail("%s moved its heartbeat timestamp backwards: %d -> %d", r.Writer, before.Timestamp, after.Timestamp)
						return
					}
					if after.RegisteredTimestamp != before.RegisteredTimestamp {
						fail("%s changed its registration time %d -> %d while its entry existed", r.Writer, before.RegisteredTimestamp, after.RegisteredTimestamp)
						return
					}
				}
				if has && !claim {
					others := map[uint32]string{}
					for id, e := range din.Ingesters {
						if id != w {
							for _, tk := range e.Tokens {
								others[tk] = id
							}
						}
					}
					old := map[uint32]bool{}
					if had {
						for _, tk := range before.Tokens {
							old[tk] = true
						}
					}
					added := 0
					for _, tk := range after.Tokens {
						if !old[tk] {
							added++
							if in.fileTokens[tk] {
								continue // inherited from the tokens file: kept as it is
							}
							if in.published[tk] {
								continue // remembered: re-registration after its entry was lost (forgotten by somebody)
							}
							if o, clash := others[tk]; clash {
								fail("%s chose token %d, which was visible in the ring as a token of %s", r.Writer, tk, o)
								return
							}
						}
					}
					if added > 0 {
						vx.Class("writes_adding_tokens", 1)
					}
					for _, tk := range after.Tokens {
						in.published[tk] = true
					}
					// automatic publication of ACTIVE after a fresh join: the full token count
					if in.fresh && !r.Explicit && after.State == ring.ACTIVE && (!had || before.State != ring.ACTIVE) {
						vx.Class("fresh_joins_reaching_active", 1)
						if len(after.Tokens) != cfg.NumTokens && len(in.claims) == 0 && !externalActive(in, lg) {
							fail("%s became ACTIVE after joining afresh with %d tokens, configured %d", r.Writer, len(after.Tokens), cfg.NumTokens)
							return
						}
					}
				}
			}
		})
		vx.Eval(checked)
		if nontrivial {
			vx.NonTrivial(vx.FP(fmt.Sprint(cfgs), fmt.Sprint(steps)))
		}
		if failure != "" {
			rt.Fatalf("%s\nhistory:\n%s", failure, strings.Join(hist, "\n"))
		}
		if vx.WantSample("lifecycler_history") && nontrivial && len(hist) <= 12 {
			vx.Sample("lifecycler_history", hist)
		}
	})
}

// externalActive: did the harness request a state change explicitly in this incarnation (then the
// token count is the caller's business)?
func externalActive(in *incarnation, lg *fakekv.Log) bool {
	for _, r := range lg.Snapshot() {
		if r.Writer == fmt.Sprintf("%s#%d", in.id, in.n) && r.Explicit {
			return true
		}
	}
	return false
}

// TestKnownHeartbeatGap reproduces finding F6 deterministically: basic lifecycler, heartbeat period
// 5 s, observe period 4 s: the first heartbeat after registration comes 9 s later.
func TestKnownHeartbeatGap(t *testing.T) {
	vx.Bubble(t, func(b *vx.B) {
		store, closer := consul.NewInMemoryClient(ring.GetCodec(), log.NewNopLogger(), nil)
		b.Cleanup(func() { _ = closer.Close() })
		lg := &fakekv.Log{}
		rec := &fakekv.Recorder{Client: store, Writer: "ing-0", Log: lg, Clone: lcx.CloneDesc}
		lc, err := lcx.New(lcx.Cfg{ID: "ing-0", Basic: true, NumTokens: 4, Observe: 4 * time.Second, HBPeriod: 5 * time.Second, RegState: ring.ACTIVE, GenSpace: 48}, rec)
		if err != nil {
			t.Fatalf("%v", err)
		}
		t0 := time.Now()
		if err := services.StartAndAwaitRunning(context.Background(), lc.Svc); err != nil {
			t.Fatalf("%v", err)
		}
		b.Cleanup(func() { lc.Svc.StopAsync(); time.Sleep(time.Second) })
		worst := time.Duration(0)
		for i := 0; i < 30; i++ {
			time.Sleep(500 * time.Millisecond)
			vx.Wait()
			v, _ := store.Get(context.Background(), lcx.RingKey)
			e, _ := entryOf(v, "ing-0")
			if age := time.Since(time.Unix(e.Timestamp, 0)); age > worst {
				worst = age
			}
		}
		_ = t0
		vx.Eval(1)
		if worst > 6*time.Second {
			vx.KnownFinding("F6", fmt.Sprintf("basic lifecycler (heartbeat period 5s, observe period 4s): heartbeat was %v old during the first period after start", worst))
		}
	})
}
