// Package c12: shuffle shards are deterministic, right-sized, stable; look-back is a superset.
package c12

import (
	"fmt"
	"sort"
	"testing"
	"time"

	"pgregory.net/rapid"

	"github.com/grafana/dskit/ring"

	"verifharness/internal/fakekv"
	"verifharness/internal/vx"
)

func TestMain(m *testing.M) {
	vx.Rule("instance rings: a (ring, identifier, size) query is non-trivial when 1 < size < eligible instances and the ring has >= 2 zones or >= 4 instances (the pseudo-random walk, not a shortcut, decides membership); look-back: a history is non-trivial when some historical shard member is not in the current plain shard; partition rings: 1 <= size < active partitions; distinct = distinct (ring, identifier, size[, query]) fingerprint")
	vx.Assume("every instance holds >= 1 token (the 'take the whole zone' shortcut and the token walk disagree on token-less instances; their eligibility is not part of the statement)")
	vx.Assume("+-1 consistency and look-back are asserted for changes that keep the set of zones (a new or vanished zone changes every zone's quota by design)")
	vx.Assume("look-back claims only what registration and read-only change times reveal: no token changes inside histories, removed instances are not claimed")
	vx.Main(m)
}

type inst struct {
	ID         string   `json:"id"`
	Zone       string   `json:"zone"`
	Tokens     []uint32 `json:"tokens"`
	RO         bool     `json:"ro"`
	ROTs       int64    `json:"ro_ts"`
	Registered int64    `json:"registered"`
}

func (i inst) String() string {
	t := i.Tokens
	if len(t) > 4 {
		t = t[:4]
	}
	return fmt.Sprintf("{%s z=%q tok=%v(%d) ro=%v@%d reg=%d}", i.ID, i.Zone, t, len(i.Tokens), i.RO, i.ROTs, i.Registered)
}

var states = []ring.InstanceState{ring.ACTIVE, ring.LEAVING, ring.PENDING, ring.JOINING}

// desc renders the instances; variant changes only what a shard must not depend on (state, heartbeat).
func desc(ins []inst, now time.Time, variant int) *ring.Desc {
	d := ring.NewDesc()
	for k, in := range ins {
		st := ring.ACTIVE
		hb := now.Add(time.Hour).Unix()
		if variant > 0 {
			st = states[(k+variant)%4]
			hb = now.Unix() - int64(k*variant)
		}
		d.Ingesters[in.ID] = ring.InstanceDesc{Id: in.ID, Addr: in.ID + ":1", Zone: in.Zone, Tokens: append([]uint32(nil), in.Tokens...),
			State: st, Timestamp: hb, RegisteredTimestamp: in.Registered, ReadOnly: in.RO, ReadOnlyUpdatedTimestamp: in.ROTs}
	}
	return d
}

func drawTokens(rt *rapid.T, n int, used map[uint32]bool) []uint32 {
	var out []uint32
	for len(out) < n {
		var tk uint32
		switch rapid.IntRange(0, 3).Draw(rt, "tkKind") {
		case 0:
			tk = rapid.SampledFrom([]uint32{0, 1, 2, 3, 5, 8, 1<<31 - 1, 1 << 31, ^uint32(0) - 2, ^uint32(0) - 1, ^uint32(0)}).Draw(rt, "tkA")
		case 1:
			tk = rapid.Uint32Range(0, 255).Draw(rt, "tkSmall")
		default:
			tk = rapid.Uint32().Draw(rt, "tk")
		}
		if used[tk] {
			if len(used) > 200 && rapid.IntRange(0, 3).Draw(rt, "giveup") == 0 {
				break
			}
			continue
		}
		used[tk] = true
		out = append(out, tk)
	}
	sort.Slice(out, func(a, b int) bool { return out[a] < out[b] })
	return out
}

func genRing(rt *rapid.T, zones []string, maxN int, base int64, used map[uint32]bool) []inst {
	n := rapid.IntRange(1, 6).Draw(rt, "n")
	if rapid.IntRange(0, 4).Draw(rt, "big") == 0 {
		n = rapid.IntRange(1, maxN).Draw(rt, "nBig")
	}
	maxTok := rapid.SampledFrom([]int{1, 2, 4, 4, 16, 128}).Draw(rt, "maxTok")
	var out []inst
	for i := 0; i < n; i++ {
		in := inst{ID: fmt.Sprintf("i%02d", i), Registered: base - 100000}
		if len(zones) > 0 {
			in.Zone = zones[i%len(zones)]
			if i >= len(zones) && rapid.Bool().Draw(rt, "rz") {
				in.Zone = rapid.SampledFrom(zones).Draw(rt, "zone")
			}
		}
		in.Tokens = drawTokens(rt, rapid.IntRange(1, maxTok).Draw(rt, "nt"), used)
		if len(in.Tokens) == 0 {
			continue
		}
		if rapid.IntRange(0, 5).Draw(rt, "ro") == 0 {
			// switched long ago, in this very second, or stamped by a clock that is ahead of the reader's
			in.RO, in.ROTs = true, base+rapid.SampledFrom([]int64{-50000, -50000, 0, 3600}).Draw(rt, "roSwitchedAt")
		}
		out = append(out, in)
	}
	return out
}

func members(r ring.ReadRing) []string {
	rs, err := r.GetAllHealthy(ring.Reporting)
	if err != nil {
		return nil
	}
	ids := rs.GetIDs()
	sort.Strings(ids)
	return ids
}

func diff(a, b []string) (added, removed int) {
	ma := map[string]bool{}
	for _, x := range a {
		ma[x] = true
	}
	mb := map[string]bool{}
	for _, x := range b {
		mb[x] = true
		if !ma[x] {
			added++
		}
	}
	for _, x := range a {
		if !mb[x] {
			removed++
		}
	}
	return
}

func cfg(za, cache bool) ring.Config {
	return ring.Config{HeartbeatTimeout: 1000 * time.Hour, ReplicationFactor: 3, ZoneAwarenessEnabled: za, SubringCacheDisabled: !cache}
}

var tenantGen = rapid.OneOf(rapid.StringMatching("[a-c]{0,3}"), rapid.SampledFrom([]string{"", "tenant-1", "é", "\x00", "a|b"}))

func TestShardBasicRapid(t *testing.T) {
	rapid.Check(t, func(rt *rapid.T) {
		za := rapid.Bool().Draw(rt, "zoneAware")
		var zones []string
		if za || rapid.Bool().Draw(rt, "zonedButNotAware") {
			zones = []string{"a", "b", "c", "d"}[:rapid.IntRange(1, 4).Draw(rt, "zones")]
		}
		now := time.Now()
		used := map[uint32]bool{}
		ins := genRing(rt, zones, 40, now.Unix(), used)
		if len(ins) == 0 {
			return
		}
		// a sixth of the zone-aware clients are configured to leave a zone out, and the ring in the store has
		// instances of that zone: for such a client the ring content is the content without them
		stored := ins
		c1, c2 := cfg(za, false), cfg(za, true)
		if za && rapid.IntRange(0, 5).Draw(rt, "excludedZone") == 0 {
			stored = append([]inst{}, ins...)
			for k := 0; k < rapid.IntRange(1, 3).Draw(rt, "excludedInstances"); k++ {
				stored = append(stored, inst{ID: fmt.Sprintf("left-out-%d", k), Zone: "zz-left-out", Tokens: drawTokens(rt, 2, used), Registered: now.Unix() - 1000})
			}
			c1.ExcludedZones, c2.ExcludedZones = []string{"zz-left-out"}, []string{"zz-left-out"}
			vx.Class("clients_configured_to_leave_a_zone_out", 1)
		}
		r := fakekv.NewRing(c1, desc(stored, now, 0))
		defer r.Stop()
		// second client: same content, other states/heartbeats, cache on
		r2 := fakekv.NewRing(c2, desc(stored, now, 0))
		defer r2.Stop()
		id := tenantGen.Draw(rt, "tenant")
		zoneCount := map[string]int{}
		zoneEligible := map[string]int{}
		eligible := 0
		ro := map[string]bool{}
		for _, in := range ins {
			z := in.Zone
			if !za {
				z = ""
			}
			zoneCount[z]++
			if !in.RO {
				zoneEligible[z]++
				eligible++
			} else {
				ro[in.ID] = true
			}
		}
		vx.Class("rings", 1)
		if vx.WantSample("ring") && len(ins) <= 5 && len(ins) >= 3 {
			vx.Sample("ring", map[string]any{"instances": fmt.Sprint(ins), "zone_aware": za, "tenant": id})
		}
		var prev []string
		sizes := []int{-1, 0}
		for s := 1; s <= len(ins)+3; s++ {
			sizes = append(sizes, s)
		}
		for _, size := range sizes {
			m := members(r.ShuffleShard(id, size))
			vx.Eval(1)
			if size > 1 && size < eligible && (len(zoneCount) >= 2 || len(ins) >= 4) {
				vx.NonTrivial(vx.FP("basic", fmt.Sprint(ins), za, id, size))
			}
			// determinism: same content, another client (cache on), asked twice and in another order
			m2 := members(r2.ShuffleShard(id, size))
			m3 := members(r2.ShuffleShard(id, size))
			if fmt.Sprint(m) != fmt.Sprint(m2) || fmt.Sprint(m) != fmt.Sprint(m3) {
				rt.Fatalf("shard depends on more than the ring content: size=%d za=%v id=%q: %v vs %v vs %v\nins=%v", size, za, id, m, m2, m3, ins)
			}
			want := eligible
			if size > 0 {
				per := (size + len(zoneCount) - 1) / len(zoneCount)
				want = 0
				for z := range zoneCount {
					e := zoneEligible[z]
					if e > per {
						e = per
					}
					want += e
				}
			}
			if len(m) != want {
				rt.Fatalf("size=%d za=%v id=%q: shard has %d members %v, want %d (per-zone eligible %v, zones %v)\nins=%v", size, za, id, len(m), m, want, zoneEligible, zoneCount, ins)
			}
			for _, x := range m {
				if ro[x] {
					rt.Fatalf("size=%d: read-only instance %s is in the shard %v", size, x, m)
				}
			}
			if size >= 2 {
				if _, rm := diff(prev, m); rm != 0 {
					rt.Fatalf("shard(%d)=%v does not contain shard(%d)=%v (za=%v id=%q)\nins=%v", size, m, size-1, prev, za, id, ins)
				}
			}
			if size >= 1 {
				prev = m
			}
		}
		// the content in another rendering (states, heartbeats differ): same members for a drawn size
		size := rapid.IntRange(1, len(ins)+1).Draw(rt, "size")
		r3 := fakekv.NewRing(cfg(za, true), desc(ins, now, 1+rapid.IntRange(0, 5).Draw(rt, "variant")))
		defer r3.Stop()
		before := members(r.ShuffleShard(id, size))
		m3 := idsOfSubring(r3.ShuffleShard(id, size), ins)
		if fmt.Sprint(m3) != fmt.Sprint(before) {
			rt.Fatalf("shard membership depends on instance state/heartbeat: %v vs %v (size=%d)", before, m3, size)
		}
		// +-1 instance, keeping the zone set
		var after []inst
		kind := rapid.IntRange(0, 1).Draw(rt, "change")
		switch kind {
		case 0:
			nw := inst{ID: "new", Zone: ins[rapid.IntRange(0, len(ins)-1).Draw(rt, "newZoneOf")].Zone, Registered: now.Unix() - 100000}
			nw.Tokens = drawTokens(rt, rapid.IntRange(1, 4).Draw(rt, "newTok"), used)
			if len(nw.Tokens) == 0 {
				return
			}
			after = append(append([]inst{}, ins...), nw)
		default:
			victim := rapid.IntRange(0, len(ins)-1).Draw(rt, "victim")
			left := 0
			for i, in := range ins {
				if i != victim && in.Zone == ins[victim].Zone {
					left++
				}
			}
			if left == 0 {
				return
			}
			for i, in := range ins {
				if i != victim {
					after = append(after, in)
				}
			}
		}
		r.Push(desc(after, now, 0))
		aft := members(r.ShuffleShard(id, size))
		a, rm := diff(before, aft)
		vx.Eval(1)
		vx.Class("plus_minus_one_checks", 1)
		if a > 1 || rm > 1 {
			rt.Fatalf("one instance %s but the shard changed by +%d/-%d: size=%d za=%v id=%q before=%v after=%v\nins=%v\nafter=%v", []string{"added", "removed"}[kind], a, rm, size, za, id, before, aft, ins, after)
		}
	})
}

// idsOfSubring lists the members of a subring whatever their state or heartbeat.
func idsOfSubring(r ring.ReadRing, ins []inst) []string {
	var out []string
	for _, in := range ins {
		if r.HasInstance(in.ID) {
			out = append(out, in.ID)
		}
	}
	sort.Strings(out)
	return out
}

func TestShardLookbackRapid(t *testing.T) {
	rapid.Check(t, func(rt *rapid.T) {
		za := rapid.Bool().Draw(rt, "zoneAware")
		var zones []string
		if za {
			zones = []string{"a", "b", "c"}[:rapid.IntRange(1, 3).Draw(rt, "zones")]
		}
		t0 := time.Now()
		base := t0.Unix()
		used := map[uint32]bool{}
		ins := genRing(rt, zones, 12, base, used)
		if len(ins) == 0 {
			return
		}
		for i := range ins { // start without read-only; the history creates them
			ins[i].RO, ins[i].ROTs = false, 0
		}
		id := tenantGen.Draw(rt, "tenant")
		size := rapid.IntRange(1, len(ins)+1).Draw(rt, "size")
		type snap struct {
			at      int64
			members []string
		}
		cur := append([]inst{}, ins...)
		r := fakekv.NewRing(cfg(za, rapid.Bool().Draw(rt, "cache")), desc(cur, t0, 0))
		defer r.Stop()
		snaps := []snap{{base - 100000, members(r.ShuffleShard(id, size))}}
		nowSec := base
		nEv := rapid.IntRange(1, 8).Draw(rt, "events")
		var evs []string
		for e := 0; e < nEv; e++ {
			nowSec += int64(rapid.IntRange(0, 20).Draw(rt, "dt"))
			switch rapid.IntRange(0, 2).Draw(rt, "kind") {
			case 0:
				// the joiner stamps its registration with its own clock, which may be ahead of the querying
				// client's: the registration then lies after the instant of a later query
				skew := int64(rapid.SampledFrom([]int{0, 0, 0, 1, 2, 30}).Draw(rt, "joinerClockAheadSec"))
				if skew > 0 {
					vx.Class("joins_stamped_by_a_clock_running_ahead", 1)
				}
				nw := inst{ID: fmt.Sprintf("j%d", e), Registered: nowSec + skew}
				nw.Zone = cur[rapid.IntRange(0, len(cur)-1).Draw(rt, "joinZoneOf")].Zone
				nw.Tokens = drawTokens(rt, rapid.IntRange(1, 3).Draw(rt, "joinTok"), used)
				if len(nw.Tokens) == 0 {
					continue
				}
				cur = append(append([]inst{}, cur...), nw)
				evs = append(evs, fmt.Sprintf("t=%d join %v", nowSec-base, nw))
			case 1:
				if len(cur) <= 1 {
					continue
				}
				v := rapid.IntRange(0, len(cur)-1).Draw(rt, "leaver")
				same := 0
				for i, in := range cur {
					if i != v && in.Zone == cur[v].Zone {
						same++
					}
				}
				if same == 0 {
					continue
				}
				evs = append(evs, fmt.Sprintf("t=%d leave %s", nowSec-base, cur[v].ID))
				cur = append(append([]inst{}, cur[:v]...), cur[v+1:]...)
			case 2:
				v := rapid.IntRange(0, len(cur)-1).Draw(rt, "toggler")
				cur = append([]inst{}, cur...)
				cur[v].RO = !cur[v].RO
				cur[v].ROTs = nowSec
				evs = append(evs, fmt.Sprintf("t=%d read-only(%s)=%v", nowSec-base, cur[v].ID, cur[v].RO))
			}
			r.Push(desc(cur, t0, 0))
			snaps = append(snaps, snap{nowSec, members(r.ShuffleShard(id, size))})
		}
		nowSec += int64(rapid.IntRange(0, 20).Draw(rt, "dtQuery"))
		lookback := int64(rapid.IntRange(1, 120).Draw(rt, "lookback"))
		if len(snaps) > 1 && rapid.IntRange(0, 2).Draw(rt, "boundary") == 0 {
			// window starting exactly at the second of an event: timestamps have second granularity, so the
			// event may have happened after the instant the window starts and the older shard counts
			if lb := nowSec - snaps[rapid.IntRange(1, len(snaps)-1).Draw(rt, "boundaryEvent")].at; lb > 0 {
				lookback = lb
				vx.Class("window_starts_at_event_second", 1)
			}
		}
		// "depends on nothing else": the same client may have answered other windows before (later ones,
		// shorter or longer ones); with the cache on their answers must not leak into this one
		for i, np := 0, rapid.IntRange(0, 2).Draw(rt, "earlierQueries"); i < np; i++ {
			at := nowSec + int64(rapid.IntRange(0, 90).Draw(rt, "earlierQueryLater"))
			lb := lookback
			if rapid.Bool().Draw(rt, "earlierQueryOtherWindow") {
				lb = int64(rapid.IntRange(1, 120).Draw(rt, "earlierQueryLookback"))
			}
			_ = r.ShuffleShardWithLookback(id, size, time.Duration(lb)*time.Second, time.Unix(at, 0))
			vx.Class("lookback_queries_preceded_by_other_windows", 1)
		}
		nowNs := rapid.SampledFrom([]int64{0, 0, 1, 400_000_000, 999_999_999}).Draw(rt, "queryNanos")
		got := members(r.ShuffleShardWithLookback(id, size, time.Duration(lookback)*time.Second, time.Unix(nowSec, nowNs)))
		gotSet := map[string]bool{}
		for _, g := range got {
			gotSet[g] = true
		}
		still := map[string]bool{}
		for _, in := range cur {
			still[in.ID] = true
		}
		from := nowSec - lookback
		inForce := 0
		for i, s := range snaps {
			if s.at < from { // strictly: an event stamped with the window's first second may have happened inside it
				inForce = i
			}
		}
		vx.Eval(1)
		curPlain := map[string]bool{}
		for _, m := range snaps[len(snaps)-1].members {
			curPlain[m] = true
		}
		nt := false
		for i, s := range snaps {
			if i < inForce {
				continue
			}
			for _, m := range s.members {
				if still[m] && !curPlain[m] {
					nt = true
				}
				if still[m] && !gotSet[m] {
					rt.Fatalf("look-back result misses %s, a member of the shard at t=%d (window [%d,%d], size=%d za=%v id=%q)\n got=%v\n snapshots=%v\n events=%v\n start=%v", m, s.at-base, from-base, nowSec-base, size, za, id, got, snaps, evs, ins)
				}
			}
		}
		if nt {
			vx.NonTrivial(vx.FP("lb", fmt.Sprint(ins), fmt.Sprint(evs), id, size, lookback, nowSec))
			vx.Class("historical_member_not_in_current_shard", 1)
		}
		// the look-back result also contains the plain shard of the same instant
		for m := range curPlain {
			if !gotSet[m] {
				rt.Fatalf("look-back result %v misses current shard member %s", got, m)
			}
		}
		if vx.WantSample("lookback_history") && nt && len(evs) <= 4 {
			vx.Sample("lookback_history", map[string]any{"start": fmt.Sprint(ins), "events": evs, "size": size, "lookback_s": lookback, "query_at": nowSec - base, "result": got})
		}
	})
}

// ---------------------------------------------------------------------------------------------
// partition rings

func pmembers(r *ring.PartitionRing) []int32 { return r.PartitionIDs() }

func genPartDesc(rt *rapid.T, base int64, maxN int, used map[uint32]bool) *ring.PartitionRingDesc {
	d := ring.NewPartitionRingDesc()
	n := rapid.IntRange(1, 8).Draw(rt, "partitions")
	if rapid.IntRange(0, 4).Draw(rt, "big") == 0 {
		n = rapid.IntRange(1, maxN).Draw(rt, "partitionsBig")
	}
	for p := 0; p < n; p++ {
		toks := drawTokens(rt, rapid.IntRange(1, 3).Draw(rt, "nt"), used)
		if len(toks) == 0 {
			continue
		}
		d.Partitions[int32(p)] = ring.PartitionDesc{Id: int32(p), Tokens: toks,
			State:          rapid.SampledFrom([]ring.PartitionState{ring.PartitionActive, ring.PartitionActive, ring.PartitionActive, ring.PartitionInactive, ring.PartitionPending}).Draw(rt, "state"),
			StateTimestamp: base - 100000}
	}
	return d
}

func pdiff(a, b []int32) (added, removed int) {
	ma, mb := map[int32]bool{}, map[int32]bool{}
	for _, x := range a {
		ma[x] = true
	}
	for _, x := range b {
		mb[x] = true
		if !ma[x] {
			added++
		}
	}
	for _, x := range a {
		if !mb[x] {
			removed++
		}
	}
	return
}

func cloneP(d *ring.PartitionRingDesc) *ring.PartitionRingDesc {
	out := ring.NewPartitionRingDesc()
	for id, p := range d.Partitions {
		c := p
		c.Tokens = append([]uint32{}, p.Tokens...)
		out.Partitions[id] = c
	}
	for id, o := range d.Owners {
		out.Owners[id] = o
	}
	return out
}

func TestPartitionShardRapid(t *testing.T) {
	rapid.Check(t, func(rt *rapid.T) {
		base := int64(1_000_000)
		used := map[uint32]bool{}
		d := genPartDesc(rt, base, 30, used)
		if len(d.Partitions) == 0 {
			return
		}
		pr, err := ring.NewPartitionRing(*cloneP(d))
		if err != nil {
			rt.Fatalf("NewPartitionRing: %v", err)
		}
		pr2, _ := ring.NewPartitionRingWithOptions(*cloneP(d), ring.PartitionRingOptions{ShuffleShardCacheSize: rapid.IntRange(0, 3).Draw(rt, "lru")})
		active := 0
		for _, p := range d.Partitions {
			if p.State == ring.PartitionActive {
				active++
			}
		}
		id := tenantGen.Draw(rt, "tenant")
		var prev []int32
		for size := -1; size <= len(d.Partitions)+3; size++ {
			a, err1 := pr.ShuffleShard(id, size)
			b, err2 := pr2.ShuffleShard(id, size)
			if err1 != nil || err2 != nil {
				rt.Fatalf("ShuffleShard(%q,%d): %v %v", id, size, err1, err2)
			}
			vx.Eval(1)
			if size >= 1 && size < active {
				vx.NonTrivial(vx.FP("pbasic", fmt.Sprint(d), id, size))
			}
			if fmt.Sprint(pmembers(a)) != fmt.Sprint(pmembers(b)) {
				rt.Fatalf("partition shard depends on more than the ring content: %v vs %v", pmembers(a), pmembers(b))
			}
			want := size
			if size <= 0 || size > active {
				want = active
			}
			if len(pmembers(a)) != want || a.ActivePartitionsCount() != want {
				rt.Fatalf("size=%d active=%d: shard %v (active count %d), want %d partitions\ndesc=%v", size, active, pmembers(a), a.ActivePartitionsCount(), want, d)
			}
			for _, p := range pmembers(a) {
				if d.Partitions[p].State != ring.PartitionActive {
					rt.Fatalf("size=%d: non-active partition %d in the shard %v", size, p, pmembers(a))
				}
			}
			if size >= 2 {
				if _, rm := pdiff(prev, pmembers(a)); rm != 0 {
					rt.Fatalf("partition shard(%d)=%v does not contain shard(%d)=%v", size, pmembers(a), size-1, prev)
				}
			}
			if size >= 1 {
				prev = pmembers(a)
			}
		}
		// +-1 active partition (add, remove, or a single state switch)
		size := rapid.IntRange(1, len(d.Partitions)+1).Draw(rt, "size")
		before, _ := pr.ShuffleShard(id, size)
		d2 := cloneP(d)
		var what string
		switch rapid.IntRange(0, 2).Draw(rt, "change") {
		case 0:
			toks := drawTokens(rt, 2, used)
			if len(toks) == 0 {
				return
			}
			d2.Partitions[100] = ring.PartitionDesc{Id: 100, Tokens: toks, State: ring.PartitionActive, StateTimestamp: base - 100}
			what = "added partition 100"
		case 1:
			ids := pmembers(pr)
			v := ids[rapid.IntRange(0, len(ids)-1).Draw(rt, "victim")]
			delete(d2.Partitions, v)
			what = fmt.Sprintf("removed partition %d", v)
			if len(d2.Partitions) == 0 {
				return
			}
		default:
			ids := pmembers(pr)
			v := ids[rapid.IntRange(0, len(ids)-1).Draw(rt, "switched")]
			p := d2.Partitions[v]
			if p.State == ring.PartitionActive {
				p.State = ring.PartitionInactive
			} else {
				p.State = ring.PartitionActive
			}
			d2.Partitions[v] = p
			what = fmt.Sprintf("partition %d -> %v", v, p.State)
		}
		r2, err := ring.NewPartitionRing(*d2)
		if err != nil {
			rt.Fatalf("NewPartitionRing: %v", err)
		}
		after, _ := r2.ShuffleShard(id, size)
		a, rm := pdiff(pmembers(before), pmembers(after))
		vx.Eval(1)
		if a > 1 || rm > 1 {
			rt.Fatalf("%s but the shard changed by +%d/-%d: size=%d before=%v after=%v\ndesc=%v", what, a, rm, size, pmembers(before), pmembers(after), d)
		}
	})
}

func TestPartitionLookbackRapid(t *testing.T) {
	rapid.Check(t, func(rt *rapid.T) {
		base := int64(1_000_000)
		used := map[uint32]bool{}
		d := genPartDesc(rt, base, 12, used)
		if len(d.Partitions) == 0 {
			return
		}
		id := tenantGen.Draw(rt, "tenant")
		size := rapid.IntRange(1, len(d.Partitions)+1).Draw(rt, "size")
		type snap struct {
			at      int64
			members []int32
		}
		shardOf := func(dd *ring.PartitionRingDesc) []int32 {
			r, err := ring.NewPartitionRing(*cloneP(dd))
			if err != nil {
				rt.Fatalf("NewPartitionRing: %v", err)
			}
			s, err := r.ShuffleShard(id, size)
			if err != nil {
				rt.Fatalf("ShuffleShard: %v", err)
			}
			return pmembers(s)
		}
		cur := cloneP(d)
		snaps := []snap{{base - 100000, shardOf(cur)}}
		nowSec := base
		var evs []string
		nextID := int32(200)
		nEvents := rapid.IntRange(1, 8).Draw(rt, "events")
		for e := 0; e < nEvents; e++ {
			nowSec += int64(rapid.IntRange(0, 20).Draw(rt, "dt"))
			ids := make([]int32, 0, len(cur.Partitions))
			for pid := range cur.Partitions {
				ids = append(ids, pid)
			}
			sort.Slice(ids, func(a, b int) bool { return ids[a] < ids[b] })
			switch rapid.IntRange(0, 3).Draw(rt, "kind") {
			case 0: // new partition, pending
				toks := drawTokens(rt, 2, used)
				if len(toks) == 0 {
					continue
				}
				cur.Partitions[nextID] = ring.PartitionDesc{Id: nextID, Tokens: toks, State: ring.PartitionPending, StateTimestamp: nowSec}
				evs = append(evs, fmt.Sprintf("t=%d create %d", nowSec-base, nextID))
				nextID++
			case 1, 2: // legal state switch
				v := ids[rapid.IntRange(0, len(ids)-1).Draw(rt, "switched")]
				p := cur.Partitions[v]
				switch p.State {
				case ring.PartitionPending:
					p.State = rapid.SampledFrom([]ring.PartitionState{ring.PartitionActive, ring.PartitionInactive}).Draw(rt, "fromPending")
				case ring.PartitionActive:
					p.State = ring.PartitionInactive
				default:
					p.State = ring.PartitionActive
				}
				p.StateTimestamp = nowSec
				cur.Partitions[v] = p
				evs = append(evs, fmt.Sprintf("t=%d partition %d -> %v", nowSec-base, v, p.State))
			default: // delete an inactive partition
				for _, v := range ids {
					if cur.Partitions[v].State == ring.PartitionInactive && len(cur.Partitions) > 1 {
						delete(cur.Partitions, v)
						evs = append(evs, fmt.Sprintf("t=%d delete %d", nowSec-base, v))
						break
					}
				}
			}
			snaps = append(snaps, snap{nowSec, shardOf(cur)})
		}
		nowSec += int64(rapid.IntRange(0, 20).Draw(rt, "dtQuery"))
		lookback := int64(rapid.IntRange(1, 120).Draw(rt, "lookback"))
		if len(snaps) > 1 && rapid.IntRange(0, 2).Draw(rt, "boundary") == 0 {
			if lb := nowSec - snaps[rapid.IntRange(1, len(snaps)-1).Draw(rt, "boundaryEvent")].at; lb > 0 {
				lookback = lb
				vx.Class("window_starts_at_event_second", 1)
			}
		}
		r, err := ring.NewPartitionRing(*cloneP(cur))
		if err != nil {
			rt.Fatalf("NewPartitionRing: %v", err)
		}
		// the query instant is rarely on a whole second; timestamps in the ring are
		nowNs := rapid.SampledFrom([]int64{0, 0, 1, 400_000_000, 999_999_999}).Draw(rt, "queryNanos")
		sub, err := r.ShuffleShardWithLookback(id, size, time.Duration(lookback)*time.Second, time.Unix(nowSec, nowNs))
		if err != nil {
			rt.Fatalf("ShuffleShardWithLookback: %v", err)
		}
		got := map[int32]bool{}
		for _, p := range pmembers(sub) {
			got[p] = true
			if cur.Partitions[p].State == ring.PartitionPending {
				rt.Fatalf("look-back shard %v contains pending partition %d", pmembers(sub), p)
			}
		}
		from := nowSec - lookback
		inForce := 0
		for i, s := range snaps {
			if s.at < from { // strictly: an event stamped with the window's first second may have happened inside it
				inForce = i
			}
		}
		vx.Eval(1)
		curPlain := map[int32]bool{}
		for _, m := range snaps[len(snaps)-1].members {
			curPlain[m] = true
		}
		nt := false
		for i, s := range snaps {
			if i < inForce {
				continue
			}
			for _, m := range s.members {
				if _, ok := cur.Partitions[m]; !ok {
					continue
				}
				if !curPlain[m] {
					nt = true
				}
				if !got[m] {
					rt.Fatalf("partition look-back result %v misses partition %d, a member of the shard at t=%d (window [%d,%d], size=%d id=%q)\n snapshots=%v\n events=%v\n start=%v", pmembers(sub), m, s.at-base, from-base, nowSec-base, size, id, snaps, evs, d)
				}
			}
		}
		if nt {
			vx.NonTrivial(vx.FP("plb", fmt.Sprint(d), fmt.Sprint(evs), id, size, lookback, nowSec))
		}
	})
}

// TestShardTokenlessRapid: rings in which some members are registered without tokens (a lifecycler's
// first registration during a scale-up). Which of them a shard may contain is left open; asserted is
// the size clause from above: never more members of a zone than the requested number per zone, all
// the token-owning eligible members of a zone when the zone has no more than that. (The "changes by at
// most one" clause is not asserted here: the statement's rings have 1..128 tokens per instance, and
// with token-less members the whole-zone shortcut makes a shard jump - existing behaviour.)
func TestShardTokenlessRapid(t *testing.T) {
	rapid.Check(t, func(rt *rapid.T) {
		zones := []string{"a", "b", "c"}[:rapid.IntRange(1, 3).Draw(rt, "zones")]
		now := time.Now()
		used := map[uint32]bool{}
		ins := genRing(rt, zones, 12, now.Unix(), used)
		for i := range ins {
			ins[i].RO, ins[i].ROTs = false, 0
		}
		nLess := rapid.IntRange(1, 3).Draw(rt, "tokenless")
		for k := 0; k < nLess; k++ {
			ins = append(ins, inst{ID: fmt.Sprintf("joining-%d", k), Zone: rapid.SampledFrom(zones).Draw(rt, "tokenlessZone"), Registered: now.Unix() - 10})
		}
		owners := map[string]int{}
		for _, in := range ins {
			if len(in.Tokens) > 0 {
				owners[in.Zone]++
			}
		}
		if len(owners) != len(zones) {
			return // a zone without any token owner: outside the quantifier (every zone holds tokens)
		}
		r := fakekv.NewRing(cfg(true, rapid.Bool().Draw(rt, "cache")), desc(ins, now, 0))
		defer r.Stop()
		id := tenantGen.Draw(rt, "tenant")
		zoneOf := map[string]string{}
		hasTok := map[string]bool{}
		for _, in := range ins {
			zoneOf[in.ID] = in.Zone
			hasTok[in.ID] = len(in.Tokens) > 0
		}
		for size := 1; size <= len(ins)+1; size++ {
			per := (size + len(zones) - 1) / len(zones)
			m := idsOfSubring(r.ShuffleShard(id, size), ins)
			vx.Eval(1)
			vx.NonTrivial(vx.FP("tokenless", fmt.Sprint(ins), id, size))
			perZone, perZoneTok := map[string]int{}, map[string]int{}
			for _, x := range m {
				perZone[zoneOf[x]]++
				if hasTok[x] {
					perZoneTok[zoneOf[x]]++
				}
			}
			for _, z := range zones {
				if perZone[z] > per {
					rt.Fatalf("size=%d (%d per zone) id=%q: the shard %v holds %d members of zone %s\nins=%v", size, per, id, m, perZone[z], z, ins)
				}
				if want := min(per, owners[z]); perZoneTok[z] < want && perZone[z] < per {
					rt.Fatalf("size=%d (%d per zone) id=%q: the shard %v holds %d token owners of zone %s, which has %d\nins=%v", size, per, id, m, perZoneTok[z], z, owners[z], ins)
				}
			}
		}
	})
}
