// Package c15: keys route to the next active partition; partition states follow legal edges.
package c15

import (
	"context"
	"errors"
	"fmt"
	"sort"
	"strings"
	"testing"
	"time"

	"github.com/go-kit/log"
	"pgregory.net/rapid"

	"github.com/grafana/dskit/kv/consul"
	"github.com/grafana/dskit/ring"
	"github.com/grafana/dskit/services"

	"verifharness/internal/fakekv"
	"verifharness/internal/model"
	"verifharness/internal/vx"
)

func TestMain(m *testing.M) {
	vx.Rule("routing: a (ring, key) lookup is non-trivial when the first token after the key belongs to a non-active partition (the walk must skip); histories: a history is non-trivial when it contains a locked partition or a reconcile at a promotion/deletion boundary; owner sets: a partition with at least one unhealthy or unknown owner; distinct = distinct case fingerprint")
	vx.Assume("virtual clock (testing/synctest); store = the repository's in-memory Consul client behind a harness recorder that attributes every committed write to its writer")
	vx.Assume("the multi-partition variant documents that it returns one (highest, preferably writable) healthy owner per zone: it is checked as 'subset of the healthy owners, one per zone, error iff none'")
	vx.Main(m)
}

const maxU = ^uint32(0)

type part struct {
	ID     int32               `json:"id"`
	Tokens []uint32            `json:"tokens"`
	State  ring.PartitionState `json:"state"`
}

func pdesc(ps []part) *ring.PartitionRingDesc {
	d := ring.NewPartitionRingDesc()
	for _, p := range ps {
		d.Partitions[p.ID] = ring.PartitionDesc{Id: p.ID, Tokens: append([]uint32{}, p.Tokens...), State: p.State, StateTimestamp: 10}
	}
	return d
}

// refRoute: first token strictly after key, skipping tokens of non-active partitions, one revolution.
func refRoute(ps []part, key uint32) (int32, bool, bool) {
	type to struct {
		t uint32
		p int
	}
	var circle []to
	for i, p := range ps {
		for _, t := range p.Tokens {
			circle = append(circle, to{t, i})
		}
	}
	if len(circle) == 0 {
		return 0, false, false
	}
	sort.Slice(circle, func(a, b int) bool { return circle[a].t < circle[b].t })
	start := 0
	for start < len(circle) && circle[start].t <= key {
		start++
	}
	if start == len(circle) {
		start = 0
	}
	skipped := false
	for k := 0; k < len(circle); k++ {
		c := circle[(start+k)%len(circle)]
		if ps[c.p].State == ring.PartitionActive {
			return ps[c.p].ID, true, skipped
		}
		skipped = true
	}
	return 0, false, skipped
}

func checkRouting(ps []part, keys []uint32, record bool) error {
	pr, err := ring.NewPartitionRing(*pdesc(ps))
	if err != nil {
		return fmt.Errorf("NewPartitionRing: %v", err)
	}
	batch := ring.NewActivePartitionBatchRing(pr)
	anyActive := false
	for _, p := range ps {
		if p.State == ring.PartitionActive {
			anyActive = true
		}
	}
	want := make([]int32, len(keys))
	for i, k := range keys {
		w, ok, skipped := refRoute(ps, k)
		if ok != anyActive {
			return fmt.Errorf("reference walk inconsistent")
		}
		want[i] = w
		got, err := pr.ActivePartitionForKey(k)
		if record {
			vx.Eval(1)
			if skipped {
				vx.NonTrivial(vx.FP("route", fmt.Sprint(ps), k))
			}
		}
		if !anyActive {
			if !errors.Is(err, ring.ErrNoActivePartitionFound) {
				return fmt.Errorf("key %d: no active partition but got (%d, %v)", k, got, err)
			}
			if _, err := batch.Get(k, ring.Write, nil, nil, nil); err == nil {
				return fmt.Errorf("key %d: batch ring Get succeeded without active partitions", k)
			}
			continue
		}
		if err != nil || got != w {
			return fmt.Errorf("key %d routed to (%d, %v), want partition %d", k, got, err, w)
		}
		rs, err := batch.Get(k, ring.Write, nil, nil, nil)
		if err != nil || len(rs.Instances) != 1 || rs.Instances[0].Id != fmt.Sprint(w) || rs.MaxErrors != 0 {
			return fmt.Errorf("key %d: batch ring Get = %v, %v; want the single partition %d", k, rs.Instances, err, w)
		}
	}
	groups, err := batch.GetKeysByPartition(context.Background(), keys)
	if !anyActive {
		if !errors.Is(err, ring.ErrNoActivePartitionFound) {
			return fmt.Errorf("GetKeysByPartition without active partitions: %v", err)
		}
		return nil
	}
	if err != nil {
		return fmt.Errorf("GetKeysByPartition: %v", err)
	}
	seen := make([]bool, len(keys))
	seenPart := map[int32]bool{}
	for _, g := range groups {
		if seenPart[g.PartitionID] || len(g.Indexes) == 0 {
			return fmt.Errorf("GetKeysByPartition: partition %d listed twice or empty", g.PartitionID)
		}
		seenPart[g.PartitionID] = true
		for _, ix := range g.Indexes {
			if ix < 0 || ix >= len(keys) || seen[ix] {
				return fmt.Errorf("GetKeysByPartition: index %d invalid or repeated", ix)
			}
			seen[ix] = true
			if want[ix] != g.PartitionID {
				return fmt.Errorf("GetKeysByPartition: key #%d (%d) grouped under partition %d, per-key lookup says %d", ix, keys[ix], g.PartitionID, want[ix])
			}
		}
	}
	for ix, s := range seen {
		if !s {
			return fmt.Errorf("GetKeysByPartition: key #%d (%d) not assigned to any partition", ix, keys[ix])
		}
	}
	return nil
}

func keysOf(ps []part, extra ...uint32) []uint32 {
	seen := map[uint32]bool{}
	var out []uint32
	add := func(k uint32) {
		if !seen[k] {
			seen[k] = true
			out = append(out, k)
		}
	}
	for _, p := range ps {
		for _, t := range p.Tokens {
			add(t - 1)
			add(t)
			add(t + 1)
		}
	}
	for _, k := range append([]uint32{0, 1, maxU, 1 << 31}, extra...) {
		add(k)
	}
	return out
}

var pstates = []ring.PartitionState{ring.PartitionActive, ring.PartitionPending, ring.PartitionInactive}

func TestRoutingRapid(t *testing.T) {
	rapid.Check(t, func(rt *rapid.T) {
		n := rapid.IntRange(1, 20).Draw(rt, "partitions")
		used := map[uint32]bool{}
		mostly := rapid.SampledFrom([]int{0, 1, 2, 3}).Draw(rt, "stateBias") // 3 = uniform
		var ps []part
		for i := 0; i < n; i++ {
			p := part{ID: int32(rapid.IntRange(0, 40).Draw(rt, "pid"))}
			dup := false
			for _, q := range ps {
				if q.ID == p.ID {
					dup = true
				}
			}
			if dup {
				continue
			}
			nt := rapid.IntRange(1, 3).Draw(rt, "nt")
			for j := 0; j < nt; j++ {
				var tk uint32
				switch rapid.IntRange(0, 2).Draw(rt, "tkKind") {
				case 0:
					tk = rapid.SampledFrom([]uint32{0, 1, 2, 3, 5, 8, 1<<31 - 1, 1 << 31, maxU - 2, maxU - 1, maxU}).Draw(rt, "tkA")
				case 1:
					tk = rapid.Uint32Range(0, 64).Draw(rt, "tkSmall")
				default:
					tk = rapid.Uint32().Draw(rt, "tk")
				}
				if !used[tk] {
					used[tk] = true
					p.Tokens = append(p.Tokens, tk)
				}
			}
			if len(p.Tokens) == 0 {
				continue
			}
			sort.Slice(p.Tokens, func(a, b int) bool { return p.Tokens[a] < p.Tokens[b] })
			if mostly < 3 && rapid.IntRange(0, 3).Draw(rt, "biased") > 0 {
				p.State = pstates[mostly]
			} else {
				p.State = rapid.SampledFrom(pstates).Draw(rt, "state")
			}
			ps = append(ps, p)
		}
		if len(ps) == 0 {
			return
		}
		keys := keysOf(ps, rapid.Uint32().Draw(rt, "k1"), rapid.Uint32().Draw(rt, "k2"))
		// the batch receives keys with repetitions and in random order
		batchKeys := append(append([]uint32{}, keys...), keys[:len(keys)/2]...)
		if vx.WantSample("partition_ring") && len(ps) <= 4 && len(ps) >= 2 {
			vx.Sample("partition_ring", fmt.Sprint(ps))
		}
		if err := checkRouting(ps, batchKeys, true); err != nil {
			rt.Fatalf("%v\npartitions=%v", err, ps)
		}
	})
}

// TestRoutingEnum: every assignment of 6 boundary tokens to 3 partitions (or unclaimed) x every state mix.
func TestRoutingEnum(t *testing.T) {
	toks := []uint32{0, 1, 2, maxU - 2, maxU - 1, maxU}
	idx := 0
	for code := 1; code < 4096; code++ {
		for sm := 0; sm < 27; sm++ {
			idx++
			if !vx.Mine(idx) {
				continue
			}
			ps := []part{{ID: 0}, {ID: 1}, {ID: 7}}
			c := code
			for _, tk := range toks {
				d := c % 4
				c /= 4
				if d > 0 {
					ps[d-1].Tokens = append(ps[d-1].Tokens, tk)
				}
			}
			s := sm
			var kept []part
			for i := range ps {
				ps[i].State = pstates[s%3]
				s /= 3
				if len(ps[i].Tokens) > 0 {
					kept = append(kept, ps[i])
				}
			}
			if err := checkRouting(kept, keysOf(kept), true); err != nil {
				vx.Failf(t, "TestRoutingEnum", kept, "%v\npartitions=%v", err, kept)
			}
		}
	}
	vx.Exhaustive("partition routing: every assignment of tokens {0,1,2,2^32-3,2^32-2,2^32-1} to 3 partitions or unclaimed x every mix of {active,pending,inactive} x boundary keys")
}

// ---------------------------------------------------------------------------------------------
// (b) histories of lifecycler / editor actions

func clonePD(v interface{}) interface{} {
	d, _ := v.(*ring.PartitionRingDesc)
	out := ring.NewPartitionRingDesc()
	if d == nil {
		return out
	}
	for id, p := range d.Partitions {
		c := p
		c.Tokens = append([]uint32{}, p.Tokens...)
		out.Partitions[id] = c
	}
	for id, o := range d.Owners {
		out.Owners[id] = o
	}
	return out
}

func legalEdge(from, to ring.PartitionState) bool {
	return (from == ring.PartitionPending && (to == ring.PartitionActive || to == ring.PartitionInactive)) ||
		(from == ring.PartitionActive && to == ring.PartitionInactive) ||
		(from == ring.PartitionInactive && to == ring.PartitionActive)
}

type lcCfg struct {
	part                  int32
	multi                 bool
	createOnStartup       bool
	removeOwnerOnShutdown bool
}

type step struct {
	kind  string
	who   int
	part  int32
	state ring.PartitionState
	flag  bool
	dt    time.Duration
}

func TestLifecycleHistoriesRapid(t *testing.T) {
	rapid.Check(t, func(rt *rapid.T) {
		nL := rapid.IntRange(1, 4).Draw(rt, "lifecyclers")
		waitOwners := rapid.IntRange(0, 2).Draw(rt, "waitOwners")
		waitDur := time.Duration(rapid.SampledFrom([]int{0, 1000, 3000, 10000, 500, 1500, 2700}).Draw(rt, "waitDurMs")) * time.Millisecond
		delDelay := time.Duration(rapid.SampledFrom([]int{0, 2, 5, 10}).Draw(rt, "deleteDelay")) * time.Second
		cfgs := make([]lcCfg, nL)
		for i := range cfgs {
			cfgs[i] = lcCfg{part: int32(rapid.IntRange(0, 2).Draw(rt, "partOf")), multi: rapid.IntRange(0, 3).Draw(rt, "multi") == 0,
				createOnStartup: rapid.IntRange(0, 4).Draw(rt, "create") > 0, removeOwnerOnShutdown: rapid.Bool().Draw(rt, "removeOwner")}
		}
		dts := []time.Duration{0, 500 * time.Millisecond, time.Second, 2 * time.Second, 5 * time.Second, 11 * time.Second,
			waitDur - time.Second, waitDur, waitDur + time.Second, delDelay - time.Second, delDelay, delDelay + time.Second}
		var steps []step
		nSteps := rapid.IntRange(3, vx.Pick(30, 45)).Draw(rt, "steps")
		for i := 0; i < nSteps; i++ {
			s := step{
				kind:  rapid.SampledFrom([]string{"start", "start", "start", "stop", "editor-state", "editor-state", "editor-lock", "lc-state", "lc-state", "advance", "advance", "advance", "remove-owner", "deactivate-and-orphan", "deactivate-and-orphan", "lock-pending", "lock-pending", "orphan-own", "orphan-own", "start-race", "start-race"}).Draw(rt, "kind"),
				who:   rapid.IntRange(0, nL-1).Draw(rt, "who"),
				part:  int32(rapid.IntRange(0, 3).Draw(rt, "part")),
				state: rapid.SampledFrom([]ring.PartitionState{ring.PartitionPending, ring.PartitionActive, ring.PartitionInactive, ring.PartitionDeleted, ring.PartitionUnknown}).Draw(rt, "state"),
				flag:  rapid.Bool().Draw(rt, "flag"),
				dt:    rapid.SampledFrom(dts).Draw(rt, "dt"),
			}
			if s.dt < 0 {
				s.dt = 0
			}
			steps = append(steps, s)
		}
		var failure string
		var hist []string
		nontrivial := false
		lockedPending := 0
		ownerless := 0
		raced := 0
		lateOwners := 0
		slowWrites := 0
		vx.Bubble(t, func(b *vx.B) {
			t0 := time.Now()
			store, closer := consul.NewInMemoryClient(ring.GetPartitionRingCodec(), log.NewNopLogger(), nil)
			b.Cleanup(func() { _ = closer.Close() })
			lg := &fakekv.Log{}
			edRec := &fakekv.Recorder{Client: store, Writer: "editor", Log: lg, Clone: clonePD}
			editor := ring.NewPartitionRingEditor("pring", edRec)
			lcs := make([]*ring.PartitionInstanceLifecycler, nL)
			recs := make([]*fakekv.Recorder, nL)
			running := make([]bool, nL)
			mk := func(i int) *ring.PartitionInstanceLifecycler {
				c := ring.PartitionInstanceLifecyclerConfig{PartitionID: cfgs[i].part, InstanceID: fmt.Sprintf("inst-%d", i), MultiPartitionOwnership: cfgs[i].multi,
					WaitOwnersCountOnPending: waitOwners, WaitOwnersDurationOnPending: waitDur, DeleteInactivePartitionAfterDuration: delDelay, PollingInterval: time.Second}
				recs[i] = &fakekv.Recorder{Client: store, Writer: fmt.Sprintf("lc-%d", i), Log: lg, Clone: clonePD}
				l := ring.NewPartitionInstanceLifecycler(c, "p", "pring", recs[i], log.NewNopLogger(), nil)
				l.SetCreatePartitionOnStartup(cfgs[i].createOnStartup)
				l.SetRemoveOwnerOnShutdown(cfgs[i].removeOwnerOnShutdown)
				return l
			}
			b.Cleanup(func() {
				for i, l := range lcs {
					if l != nil && running[i] {
						l.StopAsync()
					}
				}
				time.Sleep(3 * time.Second)
			})
			current := func() *ring.PartitionRingDesc {
				v, _ := store.Get(context.Background(), "pring")
				return clonePD(v).(*ring.PartitionRingDesc)
			}
			for si, s := range steps {
				hist = append(hist, fmt.Sprintf("t=%v %s who=%d part=%d state=%v flag=%v dt=%v", time.Since(t0), s.kind, s.who, s.part, s.state, s.flag, s.dt))
				switch s.kind {
				case "start-race":
					// constructed: the lifecycler's first write at startup loses a race against another owner of
					// the same partition, which creates the partition and sees it promoted in between: the
					// function of the lost write is evaluated again and must look at the ring again
					if running[s.who] || !cfgs[s.who].createOnStartup {
						break
					}
					lcs[s.who] = mk(s.who)
					pid := cfgs[s.who].part
					recs[s.who].Interpose = func() {
						_ = store.CAS(context.Background(), "pring", func(v interface{}) (interface{}, bool, error) {
							d := ring.GetOrCreatePartitionRingDesc(clonePD(v))
							if d.HasPartition(pid) {
								return nil, false, nil
							}
							d.AddPartition(pid, ring.PartitionPending, time.Now())
							d.AddOrUpdateOwner("rival-owner", ring.OwnerActive, pid, time.Now())
							_, _ = d.UpdatePartitionState(pid, ring.PartitionActive, time.Now())
							raced++
							return d, true, nil
						})
					}
					if err := services.StartAndAwaitRunning(context.Background(), lcs[s.who]); err != nil {
						failure = fmt.Sprintf("step %d: lifecycler %d failed to start after losing the startup race: %v", si, s.who, err)
						return
					}
					running[s.who] = true
				case "start":
					if !running[s.who] {
						lcs[s.who] = mk(s.who)
						if !cfgs[s.who].createOnStartup && !current().HasPartition(cfgs[s.who].part) {
							// would wait for the partition to appear: start it in the background only
							_ = lcs[s.who].StartAsync(context.Background())
							running[s.who] = true
							break
						}
						if err := services.StartAndAwaitRunning(context.Background(), lcs[s.who]); err != nil {
							failure = fmt.Sprintf("step %d: lifecycler %d failed to start: %v", si, s.who, err)
							return
						}
						running[s.who] = true
					}
				case "stop":
					if running[s.who] {
						_ = services.StopAndAwaitTerminated(context.Background(), lcs[s.who])
						running[s.who] = false
					}
				case "editor-state", "lc-state":
					before := current()
					var err error
					target := s.part
					if s.kind == "editor-state" {
						// now and then the store is slow to serve the editor's write (the delay keeps the write
						// off the instants at which the lifecyclers tick): what counts is the ring at the time of
						// the write, and the change is stamped with that time
						if s.dt%(2*time.Second) != 0 {
							edRec.SetDelay(1337*time.Millisecond+time.Duration(si)*7*time.Microsecond, func() { before = current() })
							slowWrites++
						}
						edRec.SetExplicit(true)
						err = editor.ChangePartitionState(context.Background(), s.part, s.state)
						edRec.SetExplicit(false)
						edRec.SetDelay(0, nil)
					} else {
						if !running[s.who] || lcs[s.who].State() != services.Running {
							continue
						}
						target = cfgs[s.who].part
						recs[s.who].SetExplicit(true)
						err = lcs[s.who].ChangePartitionState(context.Background(), s.state)
						recs[s.who].SetExplicit(false)
					}
					after := current()
					p, exists := before.Partitions[target]
					var wantErr error
					switch {
					case !exists:
						wantErr = ring.ErrPartitionDoesNotExist
					case p.State == s.state:
					case !legalEdge(p.State, s.state):
						wantErr = ring.ErrPartitionStateChangeNotAllowed
					case p.StateChangeLocked:
						wantErr = ring.ErrPartitionStateChangeLocked
						nontrivial = true
					}
					if (wantErr == nil) != (err == nil) || (wantErr != nil && !errors.Is(err, wantErr)) {
						failure = fmt.Sprintf("step %d: %s of partition %d %v -> %v (locked=%v exists=%v): got error %v, want %v", si, s.kind, target, p.State, s.state, p.StateChangeLocked, exists, err, wantErr)
						return
					}
					if err != nil && fmt.Sprint(before.Partitions[target]) != fmt.Sprint(after.Partitions[target]) {
						failure = fmt.Sprintf("step %d: rejected state change altered partition %d: %v -> %v", si, target, before.Partitions[target], after.Partitions[target])
						return
					}
					if err == nil && exists && after.Partitions[target].State != s.state {
						failure = fmt.Sprintf("step %d: accepted state change did not take effect: %v", si, after.Partitions[target])
						return
					}
				case "editor-lock":
					before := current()
					err := editor.SetPartitionStateChangeLock(context.Background(), s.part, s.flag)
					if _, ok := before.Partitions[s.part]; ok != (err == nil) {
						failure = fmt.Sprintf("step %d: lock of partition %d (exists=%v): %v", si, s.part, ok, err)
						return
					}
					if err == nil && current().Partitions[s.part].StateChangeLocked != s.flag {
						failure = fmt.Sprintf("step %d: lock flag not applied", si)
						return
					}
				case "orphan-own":
					// constructed: a running lifecycler loses its owner entry (removed by an operator or by another
					// process), its partition is deactivated and stays so beyond the deletion delay: whoever
					// deletes the partition, it is never its own lifecycler
					if !running[s.who] || lcs[s.who].State() != services.Running {
						break
					}
					pid := cfgs[s.who].part
					_ = store.CAS(context.Background(), "pring", func(v interface{}) (interface{}, bool, error) {
						d := ring.GetOrCreatePartitionRingDesc(clonePD(v))
						changed := false
						for id, o := range d.Owners {
							if o.OwnedPartition == pid {
								delete(d.Owners, id)
								changed = true
							}
						}
						return d, changed, nil
					})
					edRec.SetExplicit(true)
					_ = editor.SetPartitionStateChangeLock(context.Background(), pid, false)
					_ = editor.ChangePartitionState(context.Background(), pid, ring.PartitionInactive)
					edRec.SetExplicit(false)
					if pd, ok := current().Partitions[pid]; ok && pd.State == ring.PartitionInactive {
						ownerless++
					}
					time.Sleep(delDelay + 2*time.Second)
				case "lock-pending":
					// constructed: lock a partition while it is still pending, then let its owners' reconcile
					// ticks pass the promotion time
					cur := current()
					var pend []int32
					for pid := int32(0); pid < 4; pid++ {
						if pd, ok := cur.Partitions[pid]; ok && pd.State == ring.PartitionPending {
							pend = append(pend, pid)
						}
					}
					if len(pend) == 0 {
						break
					}
					pid := pend[int(s.part)%len(pend)]
					if err := editor.SetPartitionStateChangeLock(context.Background(), pid, true); err != nil {
						failure = fmt.Sprintf("step %d: lock of pending partition %d: %v", si, pid, err)
						return
					}
					lockedPending++
					time.Sleep(waitDur + s.dt)
					vx.Wait()
					if pd := current().Partitions[pid]; pd.StateChangeLocked && pd.State != ring.PartitionPending {
						failure = fmt.Sprintf("step %d: partition %d was locked while pending and is %v (still locked) %v later", si, pid, pd.State, waitDur+s.dt)
						return
					}
				case "remove-owner":
					_ = editor.RemoveMultiPartitionOwner(context.Background(), fmt.Sprintf("inst-%d", s.who), cfgs[s.who].part)
				case "deactivate-and-orphan":
					// constructed deletion opportunity: stop the owners of a partition (removing them) and deactivate it
					for i := range lcs {
						if running[i] && cfgs[i].part == s.part && lcs[i].State() == services.Running {
							lcs[i].SetRemoveOwnerOnShutdown(true)
							_ = services.StopAndAwaitTerminated(context.Background(), lcs[i])
							running[i] = false
						}
					}
					edRec.SetExplicit(true)
					_ = editor.ChangePartitionState(context.Background(), s.part, ring.PartitionInactive)
					edRec.SetExplicit(false)
					// make sure somebody else could delete it, then wait around the deletion boundary
					if !running[s.who] && cfgs[s.who].part != s.part && (cfgs[s.who].createOnStartup || current().HasPartition(cfgs[s.who].part)) {
						lcs[s.who] = mk(s.who)
						if err := services.StartAndAwaitRunning(context.Background(), lcs[s.who]); err == nil {
							running[s.who] = true
						}
					}
					time.Sleep(delDelay + s.dt%3*time.Second - time.Second)
					if s.flag && delDelay > 0 {
						// an owner registers for the partition at the last moment: immediately before the first write
						// of any lifecycler at which the partition could be deleted (what a lifecycler read before
						// that write no longer holds; the function of its write is handed the owner)
						part := s.part
						fired := false
						skip := int(s.dt/(500*time.Millisecond)) % 3 // the 1st, 2nd or 3rd such write (a tick makes several)
						late := func() bool {
							if fired {
								return true
							}
							pd, ok := current().Partitions[part]
							if !ok || pd.State != ring.PartitionInactive || time.Since(time.Unix(pd.StateTimestamp, 0)) <= delDelay {
								return false
							}
							for _, o := range current().Owners {
								if o.OwnedPartition == part && o.State != ring.OwnerDeleted {
									return false
								}
							}
							if skip > 0 {
								skip--
								return false
							}
							fired = true
							_ = store.CAS(context.Background(), "pring", func(v interface{}) (interface{}, bool, error) {
								d := ring.GetOrCreatePartitionRingDesc(clonePD(v))
								d.AddOrUpdateOwner(fmt.Sprintf("late-owner-%d", part), ring.OwnerActive, part, time.Now())
								return d, true, nil
							})
							lateOwners++
							return true
						}
						for i := range recs {
							if recs[i] != nil {
								recs[i].SetBefore(late)
							}
						}
						time.Sleep(3 * time.Second)
					}
				case "advance":
					time.Sleep(s.dt)
				}
				vx.Wait()
			}
			// legality of every recorded version transition
			for _, r := range lg.Snapshot() {
				in, _ := r.In.(*ring.PartitionRingDesc)
				if in == nil {
					in = ring.NewPartitionRingDesc()
				}
				out := r.Out.(*ring.PartitionRingDesc)
				var ownPart int32 = -1
				var li = -1
				if n, _ := fmt.Sscanf(r.Writer, "lc-%d", &li); n == 1 {
					ownPart = cfgs[li].part
				}
				vx.Eval(1)
				for pid, before := range in.Partitions {
					after, ok := out.Partitions[pid]
					if !ok {
						vx.Class("partition_deleted", 1)
						owners := 0
						for _, o := range in.Owners {
							if o.OwnedPartition == pid {
								owners++
							}
						}
						limit := r.At.Add(-delDelay).Unix()
						if before.StateTimestamp == limit-1 || before.StateTimestamp == limit {
							nontrivial = true
						}
						if before.State != ring.PartitionInactive || !(before.StateTimestamp < limit) || owners != 0 || delDelay == 0 || li < 0 || ownPart == pid {
							failure = fmt.Sprintf("%s deleted partition %d illegally at t=%d: %+v, owners=%d, delete delay %v, writer's own partition %d", r.Writer, pid, r.At.Unix(), before, owners, delDelay, ownPart)
							return
						}
						continue
					}
					if fmt.Sprint(before.Tokens) != fmt.Sprint(after.Tokens) {
						failure = fmt.Sprintf("%s changed the tokens of partition %d", r.Writer, pid)
						return
					}
					if before.State != after.State {
						vx.Class(fmt.Sprintf("edge_%v_to_%v", before.State, after.State), 1)
						if !legalEdge(before.State, after.State) {
							failure = fmt.Sprintf("%s wrote the illegal edge %v -> %v for partition %d", r.Writer, before.State, after.State, pid)
							return
						}
						if before.StateChangeLocked {
							failure = fmt.Sprintf("%s changed the state of locked partition %d: %v -> %v", r.Writer, pid, before.State, after.State)
							return
						}
						if after.StateTimestamp != r.At.Unix() {
							failure = fmt.Sprintf("%s changed state of partition %d at t=%d but stamped it %d", r.Writer, pid, r.At.Unix(), after.StateTimestamp)
							return
						}
						if !r.Explicit {
							// an automatic change: only the promotion of the writer's own pending partition
							if li < 0 || pid != ownPart || before.State != ring.PartitionPending || after.State != ring.PartitionActive {
								failure = fmt.Sprintf("%s changed partition %d %v -> %v without being asked to", r.Writer, pid, before.State, after.State)
								return
							}
							limit := r.At.Add(-waitDur).Unix()
							eligible, boundary := 0, false
							for _, o := range in.Owners {
								if o.OwnedPartition == pid {
									if o.UpdatedTimestamp < limit {
										eligible++
									}
									if o.UpdatedTimestamp == limit || o.UpdatedTimestamp == limit-1 {
										boundary = true
									}
								}
							}
							if boundary {
								nontrivial = true
							}
							vx.Class("automatic_promotions", 1)
							if eligible < waitOwners {
								failure = fmt.Sprintf("%s promoted pending partition %d at t=%d with only %d owners registered before %d (needs %d, wait %v); owners=%v", r.Writer, pid, r.At.Unix(), eligible, limit, waitOwners, waitDur, in.Owners)
								return
							}
						}
					}
				}
				// an owner entry a lifecycler registers must be one the rings that resolve owners map back to
				// its instance and its partition (single- and multi-partition ownership use different ids)
				for id, o := range out.Owners {
					if _, had := in.Owners[id]; had || li < 0 {
						continue
					}
					inst := fmt.Sprintf("inst-%d", li)
					pd, ok := out.Partitions[o.OwnedPartition]
					if o.OwnedPartition != ownPart || !ok {
						failure = fmt.Sprintf("%s registered owner %q of partition %d (exists=%v); its own partition is %d", r.Writer, id, o.OwnedPartition, ok, ownPart)
						return
					}
					one := ring.NewPartitionRingDesc()
					one.Partitions[ownPart] = pd
					one.Owners[id] = o
					pr, err := ring.NewPartitionRing(*one)
					if err != nil {
						failure = fmt.Sprintf("NewPartitionRing(%v): %v", one, err)
						return
					}
					insts := fakeInstances{inst: ring.InstanceDesc{Id: inst, Addr: inst, Zone: "z", State: ring.ACTIVE, Timestamp: time.Now().Unix()}}
					var got []string
					if cfgs[li].multi {
						rs, err := ring.NewMultiPartitionInstanceRing(staticReader{pr}, insts, time.Hour).GetReplicationSetForPartitionAndOperation(ownPart, ring.Reporting)
						if err == nil {
							got = rs.GetIDs()
						}
					} else {
						sets, err := ring.NewPartitionInstanceRing(staticReader{pr}, insts, time.Hour).GetReplicationSetsForOperation(ring.Reporting)
						if err == nil && len(sets) == 1 {
							got = sets[0].GetIDs()
						}
					}
					vx.Class("owner_registrations_resolved_through_the_instance_rings", 1)
					if len(got) != 1 || got[0] != inst {
						failure = fmt.Sprintf("%s (multi-partition ownership %v) registered owner %q of partition %d, which the partition instance ring resolves to %v instead of [%s]", r.Writer, cfgs[li].multi, id, ownPart, got, inst)
						return
					}
				}
				for pid, after := range out.Partitions {
					if _, ok := in.Partitions[pid]; !ok {
						if after.State != ring.PartitionPending {
							failure = fmt.Sprintf("%s created partition %d in state %v", r.Writer, pid, after.State)
							return
						}
						if li < 0 || pid != ownPart || !cfgs[li].createOnStartup {
							failure = fmt.Sprintf("%s created partition %d (own partition %d)", r.Writer, pid, ownPart)
							return
						}
					}
				}
			}
		})
		if failure != "" {
			rt.Fatalf("%s\nhistory:\n%s", failure, strings.Join(hist, "\n"))
		}
		if lockedPending > 0 {
			vx.Class("histories_with_a_pending_partition_locked", 1)
			nontrivial = true
		}
		if slowWrites > 0 {
			vx.Class("histories_with_editor_writes_served_slowly", 1)
		}
		if lateOwners > 0 {
			vx.Class("histories_with_an_owner_registering_just_before_a_write_that_could_delete_its_partition", 1)
		}
		if raced > 0 {
			vx.Class("histories_with_a_lost_startup_race", 1)
			nontrivial = true
		}
		if ownerless > 0 {
			vx.Class("histories_with_a_running_lifecycler_whose_partition_is_inactive_and_ownerless", 1)
			nontrivial = true
		}
		if nontrivial {
			vx.NonTrivial(vx.FP("hist", strings.Join(hist, ";"), waitOwners, waitDur, delDelay, fmt.Sprint(cfgs)))
		}
		if vx.WantSample("lifecycle_history") && len(hist) <= 8 && nontrivial {
			vx.Sample("lifecycle_history", hist)
		}
	})
}

// ---------------------------------------------------------------------------------------------
// (c) owner-based replication sets

type fakeInstances map[string]ring.InstanceDesc

func (f fakeInstances) GetInstance(id string) (ring.InstanceDesc, error) {
	in, ok := f[id]
	if !ok {
		return ring.InstanceDesc{}, ring.ErrInstanceNotFound
	}
	return in, nil
}
func (f fakeInstances) InstancesCount() int { return len(f) }

type staticReader struct{ r *ring.PartitionRing }

func (s staticReader) PartitionRing() *ring.PartitionRing { return s.r }

func TestOwnerSetsRapid(t *testing.T) {
	ops := map[string]ring.Operation{"Write": ring.Write, "Read": ring.Read, "Reporting": ring.Reporting}
	rapid.Check(t, func(rt *rapid.T) {
		var failure string
		vx.Bubble(t, func(b *vx.B) {
			now := time.Now()
			nP := rapid.IntRange(1, 5).Draw(rt, "partitions")
			d := ring.NewPartitionRingDesc()
			for p := int32(0); p < int32(nP); p++ {
				d.Partitions[p] = ring.PartitionDesc{Id: p, Tokens: []uint32{uint32(p)*100 + 1, uint32(p)*100 + 50}, State: rapid.SampledFrom(pstates).Draw(rt, "pstate"), StateTimestamp: 5}
			}
			insts := fakeInstances{}
			nO := rapid.IntRange(0, 8).Draw(rt, "owners")
			multi := rapid.Bool().Draw(rt, "multi")
			type own struct {
				ownerID, instID string
				part            int32
			}
			var owners []own
			for o := 0; o < nO; o++ {
				ozone, oidx := rapid.SampledFrom([]string{"a", "b", "c"}).Draw(rt, "ozone"), rapid.IntRange(0, 3).Draw(rt, "oidx")
				instID := fmt.Sprintf("inst-%d-%s", oidx, ozone) // sorted by id, the zones alternate
				p := int32(rapid.IntRange(0, nP-1).Draw(rt, "owned"))
				ownerID := instID
				if multi {
					ownerID = fmt.Sprintf("%s/%d", instID, p)
				}
				if _, dup := d.Owners[ownerID]; dup {
					continue
				}
				d.Owners[ownerID] = ring.OwnerDesc{OwnedPartition: p, State: ring.OwnerActive, UpdatedTimestamp: 7}
				owners = append(owners, own{ownerID, instID, p})
				switch rapid.IntRange(0, 5).Draw(rt, "instKind") {
				case 0: // unknown to the instance ring
				default:
					if _, ok := insts[instID]; !ok {
						insts[instID] = ring.InstanceDesc{Id: instID, Addr: instID, Zone: strings.Split(instID, "-")[2],
							State:     rapid.SampledFrom([]ring.InstanceState{ring.ACTIVE, ring.ACTIVE, ring.ACTIVE, ring.LEAVING, ring.JOINING, ring.PENDING}).Draw(rt, "istate"),
							Timestamp: now.Unix() - rapid.SampledFrom([]int64{0, 0, 59, 60, 61, 600}).Draw(rt, "age"),
							ReadOnly:  rapid.IntRange(0, 4).Draw(rt, "ro") == 0}
					}
				}
			}
			pr, err := ring.NewPartitionRing(*d)
			if err != nil {
				failure = fmt.Sprintf("NewPartitionRing: %v", err)
				return
			}
			opName := rapid.SampledFrom([]string{"Write", "Read", "Reporting"}).Draw(rt, "op")
			op := ops[opName]
			// the same ring snapshot answers several times while the health of the instances changes:
			// as drawn, then every owner known, active and fresh, then as drawn again
			drawn := insts
			for round := 0; round < 3; round++ {
				insts = drawn
				if round == 1 {
					insts = fakeInstances{}
					for _, o := range owners {
						insts[o.instID] = ring.InstanceDesc{Id: o.instID, Addr: o.instID, Zone: strings.Split(o.instID, "-")[2], State: ring.ACTIVE, Timestamp: now.Unix()}
					}
				}
				healthy := func(in ring.InstanceDesc) bool {
					return model.StateHealthy(op, in.State) && now.Unix()-in.Timestamp <= 60
				}
				// oracle per partition
				want := map[int32][]string{}
				anyBad := false
				for _, o := range owners {
					if in, ok := insts[o.instID]; ok && healthy(in) {
						want[o.part] = append(want[o.part], o.instID)
					} else {
						anyBad = true
					}
				}
				vx.Eval(1)
				if anyBad {
					vx.NonTrivial(vx.FP("owners", fmt.Sprint(d.Owners), fmt.Sprint(insts), opName, multi))
				}
				if !multi {
					pir := ring.NewPartitionInstanceRing(staticReader{pr}, insts, time.Minute)
					sets, err := pir.GetReplicationSetsForOperation(op)
					expectErr := false
					for p := int32(0); p < int32(nP); p++ {
						if len(want[p]) == 0 {
							expectErr = true
						}
					}
					if expectErr != (err != nil) {
						failure = fmt.Sprintf("round %d on the same ring snapshot: GetReplicationSetsForOperation(%s): err=%v, want error=%v (healthy owners per partition %v)\nowners=%v\ninstances=%v", round, opName, err, expectErr, want, d.Owners, insts)
						return
					}
					if err == nil {
						if len(sets) != nP {
							failure = fmt.Sprintf("%d replication sets for %d partitions", len(sets), nP)
							return
						}
						matched := map[int32]bool{}
						for _, rs := range sets {
							ids := rs.GetIDs()
							sort.Strings(ids)
							found := false
							for p, w := range want {
								ws := append([]string{}, w...)
								sort.Strings(ws)
								if !matched[p] && fmt.Sprint(ws) == fmt.Sprint(ids) {
									matched[p], found = true, true
									zones := map[string]bool{}
									for _, in := range rs.Instances {
										zones[in.Zone] = true
									}
									if rs.MaxUnavailableZones != len(zones)-1 || !rs.ZoneAwarenessEnabled || rs.MaxErrors != 0 {
										failure = fmt.Sprintf("partition %d: set %v has MaxUnavailableZones=%d MaxErrors=%d zoneAware=%v, want zones-1=%d (at least one answer required)", p, ids, rs.MaxUnavailableZones, rs.MaxErrors, rs.ZoneAwarenessEnabled, len(zones)-1)
										return
									}
									break
								}
							}
							if !found {
								failure = fmt.Sprintf("round %d on the same ring snapshot: replication set %v is not the set of healthy owners of any partition (want %v)", round, ids, want)
								return
							}
						}
					}
				} else {
					mr := ring.NewMultiPartitionInstanceRing(staticReader{pr}, insts, time.Minute)
					for p := int32(0); p < int32(nP); p++ {
						rs, err := mr.GetReplicationSetForPartitionAndOperation(p, op)
						if (len(want[p]) == 0) != (err != nil) {
							failure = fmt.Sprintf("multi: partition %d: err=%v, healthy owners %v", p, err, want[p])
							return
						}
						if err != nil {
							continue
						}
						wz := map[string]bool{}
						ws := map[string]bool{}
						for _, id := range want[p] {
							ws[id] = true
							wz[insts[id].Zone] = true
						}
						gz := map[string]bool{}
						for _, in := range rs.Instances {
							if !ws[in.Id] {
								failure = fmt.Sprintf("multi: partition %d: %s is not a healthy owner (%v)", p, in.Id, want[p])
								return
							}
							if gz[in.Zone] {
								failure = fmt.Sprintf("multi: partition %d: two instances of zone %s", p, in.Zone)
								return
							}
							gz[in.Zone] = true
						}
						if len(gz) != len(wz) || rs.MaxUnavailableZones != len(wz)-1 {
							failure = fmt.Sprintf("multi: partition %d: zones %v of %v, MaxUnavailableZones=%d", p, gz, wz, rs.MaxUnavailableZones)
							return
						}
					}
				}
			}
		})
		if failure != "" {
			rt.Fatalf("%s", failure)
		}
	})
}
