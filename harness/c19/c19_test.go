// Package c19: cache wrappers never return wrong, deleted or expired data; placement is stable.
package c19

import (
	"bytes"
	"context"
	"fmt"
	"sort"
	"strings"
	"testing"
	"time"

	"github.com/cespare/xxhash/v2"
	"github.com/go-kit/log"
	"pgregory.net/rapid"

	"github.com/grafana/dskit/cache"

	"verifharness/internal/vx"
)

func TestMain(m *testing.M) {
	vx.Rule("a sequence is non-trivial when it contains a read answered after an eviction-then-backfill, a read within one second of an expiry instant, or a key stored under two versions; selector: a list of >= 2 servers containing a natural-sort trap (…2 vs …10); distinct = distinct (stack, op sequence) fingerprint")
	vx.Assume("staleness bound: a value may be served until the later of the entry's own expiry instant and (time of a read that found the entry alive in the backend) + the in-memory layer's default TTL; without an in-memory layer: the entry's expiry instant")
	vx.Assume("the in-process backend never drops live entries, so completeness (a live entry is returned) is asserted too")
	vx.Assume("virtual clock (testing/synctest) advanced in lock-step with the mock backend's clock")
	vx.Main(m)
}

type entry struct {
	val      []byte
	storedAt time.Time
	ttl      time.Duration
	live     bool
	reads    []time.Time
	backfill bool // was read from the backend after being absent from / expired in the LRU
}

type op struct {
	Kind string
	View int
	Keys []string
	Val  []byte
	TTL  time.Duration
	Adv  time.Duration
}

func (o op) String() string {
	v := fmt.Sprintf("%d bytes", len(o.Val))
	if len(o.Val) <= 6 {
		v = fmt.Sprintf("%v", o.Val)
	}
	return fmt.Sprintf("%s(view=%d keys=%q val=%s ttl=%v adv=%v)", o.Kind, o.View, o.Keys, v, o.TTL, o.Adv)
}

var keyAlphabet = []string{"a", "b", "c", "1@a", "a@1", "0@a"}

func genValue(rt *rapid.T, i int) []byte {
	switch rapid.IntRange(0, 7).Draw(rt, "valKind") {
	case 0:
		return []byte{}
	case 1:
		return []byte{byte(i)}
	case 2:
		return bytes.Repeat([]byte{byte('a' + i%26)}, rapid.IntRange(10, 300).Draw(rt, "repeat"))
	case 3:
		return append(rapid.SliceOfN(rapid.Byte(), 16, 64).Draw(rt, "random"), byte(i))
	case 4:
		if rapid.IntRange(0, 9).Draw(rt, "huge") == 0 {
			b := bytes.Repeat([]byte{0xAB, byte(i)}, 32*1024)
			return b
		}
		return []byte{0xff, 0x00, byte(i)}
	default:
		return append(rapid.SliceOfN(rapid.Byte(), 0, 6).Draw(rt, "small"), byte(i))
	}
}

type stackSpec struct {
	Order   []string
	Use     int
	LRUSize int
	DefTTL  time.Duration
}

func (s stackSpec) layers() []string {
	var out []string
	for i, l := range s.Order {
		if s.Use&(1<<i) != 0 {
			out = append(out, l)
		}
	}
	return out // top first
}

func build(base cache.Cache, s stackSpec, version uint) cache.Cache {
	c := base
	ls := s.layers()
	for i := len(ls) - 1; i >= 0; i-- {
		switch ls[i] {
		case "lru":
			l, err := cache.WrapWithLRUCache(c, "x", nil, s.LRUSize, s.DefTTL, log.NewNopLogger())
			if err != nil {
				panic(err)
			}
			c = l
		case "versioned":
			c = cache.NewVersioned(c, version, log.NewNopLogger())
		case "snappy":
			c = cache.NewSnappy(c, log.NewNopLogger())
		}
	}
	return c
}

func has(ls []string, x string) bool {
	for _, l := range ls {
		if l == x {
			return true
		}
	}
	return false
}

// runSequence executes ops on the stack(s) and checks every read against the model.
func runSequence(t *testing.T, spec stackSpec, versions [2]uint, ops []op) (failure string, nontrivial bool) {
	vx.Bubble(t, func(b *vx.B) {
		mock := cache.NewMockCache()
		ls := spec.layers()
		hasLRU, hasVer := has(ls, "lru"), has(ls, "versioned")
		views := []cache.Cache{build(mock, spec, versions[0])}
		if hasVer {
			views = append(views, build(mock, spec, versions[1]))
		}
		ctx := context.Background()
		type mk struct {
			view int
			key  string
		}
		model := map[mk]*entry{}
		poisoned := false
		backendLive := func(e *entry, now time.Time) bool {
			return e != nil && e.live && now.Before(e.storedAt.Add(e.ttl))
		}
		store := func(v int, k string, val []byte, ttl time.Duration, now time.Time) {
			model[mk{v, k}] = &entry{val: val, storedAt: now, ttl: ttl, live: true}
			if hasVer && len(views) > 1 {
				if e := model[mk{1 - v, k}]; e != nil && backendLive(e, now) {
					nontrivial = true // same key alive under two versions
				}
			}
		}
		for i, o := range ops {
			now := time.Now()
			v := o.View % len(views)
			c := views[v]
			switch o.Kind {
			case "set":
				if err := c.Set(ctx, o.Keys[0], o.Val, o.TTL); err != nil {
					failure = fmt.Sprintf("op %d %v: Set error %v", i, o, err)
					return
				}
				store(v, o.Keys[0], o.Val, o.TTL, now)
			case "setasync":
				c.SetAsync(o.Keys[0], o.Val, o.TTL)
				store(v, o.Keys[0], o.Val, o.TTL, now)
			case "setmulti":
				data := map[string][]byte{}
				for _, k := range o.Keys {
					data[k] = o.Val
				}
				c.SetMultiAsync(data, o.TTL)
				for _, k := range o.Keys {
					store(v, k, o.Val, o.TTL, now)
				}
			case "add":
				err := c.Add(ctx, o.Keys[0], o.Val, o.TTL)
				if backendLive(model[mk{v, o.Keys[0]}], now) {
					if err != cache.ErrNotStored {
						failure = fmt.Sprintf("op %d %v: Add on a live key returned %v, want ErrNotStored", i, o, err)
						return
					}
				} else {
					if err != nil {
						failure = fmt.Sprintf("op %d %v: Add on an absent/expired key failed: %v", i, o, err)
						return
					}
					store(v, o.Keys[0], o.Val, o.TTL, now)
				}
			case "del":
				if err := c.Delete(ctx, o.Keys[0]); err != nil {
					failure = fmt.Sprintf("op %d %v: Delete error %v", i, o, err)
					return
				}
				if e := model[mk{v, o.Keys[0]}]; e != nil {
					e.live = false
				}
			case "adv":
				time.Sleep(o.Adv)
				mock.Advance(o.Adv)
			case "poison":
				// a foreign writer puts bytes that are not valid snappy under the backend key of "poisoned":
				// the compressed layer must drop the entry on read, never hand it out
				bk := "poisoned"
				if hasVer {
					bk = fmt.Sprintf("%d@poisoned", versions[v])
				}
				_ = mock.Set(ctx, bk, []byte{0xff, 0xff, 0xff, 0xff, 0xff, 0x01, 0x02}, 30*time.Second)
				poisoned = true
				nontrivial = true
			case "get", "getwitherror", "get-local-hit":
				var res map[string][]byte
				if o.Kind != "getwitherror" {
					res = c.GetMulti(ctx, o.Keys)
				} else {
					var err error
					res, err = c.GetMultiWithError(ctx, o.Keys)
					if err != nil && !poisoned {
						failure = fmt.Sprintf("op %d %v: GetMultiWithError error %v", i, o, err)
						return
					}
				}
				asked := map[string]bool{}
				for _, k := range o.Keys {
					asked[k] = true
				}
				for k := range res {
					if !asked[k] {
						failure = fmt.Sprintf("op %d %v: result contains key %q that was not asked for (result keys %v)", i, o, k, keysOf(res))
						return
					}
				}
				for _, k := range o.Keys {
					e := model[mk{v, k}]
					got, found := res[k]
					vx.Eval(1)
					if found {
						if e == nil {
							failure = fmt.Sprintf("op %d %v: key %q was never stored under this version but a value was returned (%d bytes)", i, o, k, len(got))
							return
						}
						if !e.live {
							failure = fmt.Sprintf("op %d %v: key %q returned after its deletion", i, o, k)
							return
						}
						if !bytes.Equal(got, e.val) {
							failure = fmt.Sprintf("op %d %v: key %q returned %d bytes %v..., last stored %d bytes %v...", i, o, k, len(got), head(got), len(e.val), head(e.val))
							return
						}
						deadline := e.storedAt.Add(e.ttl)
						if hasLRU {
							for _, rb := range e.reads {
								if d := rb.Add(spec.DefTTL); d.After(deadline) {
									deadline = d
								}
							}
						}
						if !now.Before(deadline) {
							failure = fmt.Sprintf("op %d %v: key %q returned at t=%v but it may be served only before %v (stored %v, ttl %v, backend reads %v, in-memory default ttl %v)", i, o, k, now.Format("15:04:05"), deadline.Format("15:04:05"), e.storedAt.Format("15:04:05"), e.ttl, fmtTimes(e.reads), spec.DefTTL)
							return
						}
						if !now.Before(e.storedAt.Add(e.ttl)) {
							nontrivial = true // served from a back-filled copy past the backend expiry
							vx.Class("served_from_backfill_past_backend_expiry", 1)
						}
						if d := e.storedAt.Add(e.ttl).Sub(now); d > 0 && d <= time.Second {
							nontrivial = true
							vx.Class("read_just_before_expiry", 1)
						}
					} else {
						if backendLive(e, now) {
							failure = fmt.Sprintf("op %d %v: key %q is alive (stored %v ago, ttl %v) but was not returned", i, o, k, now.Sub(e.storedAt), e.ttl)
							return
						}
						if e != nil && e.live {
							if d := now.Sub(e.storedAt.Add(e.ttl)); d >= 0 && d <= time.Second {
								nontrivial = true
								vx.Class("read_just_after_expiry", 1)
							}
						}
					}
					if backendLive(e, now) && o.Kind != "get-local-hit" {
						// (any read while the backend copy lives may have been a back-fill with the default TTL; the
						// constructed read right after a write through the same stack cannot have been one)
						e.reads = append(e.reads, now)
					}
				}
			}
		}
	})
	return
}

func keysOf(m map[string][]byte) []string {
	var ks []string
	for k := range m {
		ks = append(ks, k)
	}
	sort.Strings(ks)
	return ks
}

func head(b []byte) []byte {
	if len(b) > 8 {
		return b[:8]
	}
	return b
}

func fmtTimes(ts []time.Time) string {
	var s []string
	for _, t := range ts {
		s = append(s, t.Format("15:04:05"))
	}
	return strings.Join(s, ",")
}

func genOps(rt *rapid.T, spec stackSpec) []op {
	var ops []op
	n := rapid.IntRange(1, 40).Draw(rt, "nops")
	lastTTL := map[string]time.Duration{}
	for i := 0; i < n; i++ {
		o := op{Kind: rapid.SampledFrom([]string{"set", "set", "add", "get", "get", "getwitherror", "del", "adv", "adv", "setasync", "setmulti", "evict-and-straddle", "straddle", "mixed-read"}).Draw(rt, "kind"),
			View: rapid.IntRange(0, 1).Draw(rt, "view")}
		o.Keys = []string{rapid.SampledFrom(keyAlphabet).Draw(rt, "key")}
		o.Val = genValue(rt, i)
		o.TTL = time.Duration(rapid.IntRange(1, 20).Draw(rt, "ttl")) * time.Second
		if rapid.IntRange(0, 11).Draw(rt, "noLifetime") == 0 && (o.Kind == "set" || o.Kind == "setasync" || o.Kind == "setmulti" || o.Kind == "add") {
			// a plain write with no lifetime left (a caller that computes "expires at - now"): on every
			// in-process layer the entry is expired as soon as it is written, and what was there before is gone
			o.TTL = time.Duration(rapid.SampledFrom([]int{0, -1}).Draw(rt, "ttlNone")) * time.Second
		}
		o.Adv = time.Duration(rapid.SampledFrom([]int{1, 500, 999, 1000, 1001, 2000, 5000, 12000, 21000}).Draw(rt, "advMs")) * time.Millisecond
		if has(spec.layers(), "snappy") && rapid.IntRange(0, 14).Draw(rt, "poison") == 0 {
			ops = append(ops, op{Kind: "poison", View: o.View}, op{Kind: "get", View: o.View, Keys: []string{"poisoned", "a"}}, op{Kind: "getwitherror", View: o.View, Keys: []string{"poisoned"}})
		}
		switch o.Kind {
		case "get", "getwitherror", "setmulti":
			o.Keys = rapid.SliceOfNDistinct(rapid.SampledFrom(append([]string{"zz"}, keyAlphabet...)), 1, 4, func(s string) string { return s }).Draw(rt, "keys")
			if o.Kind == "setmulti" {
				for _, k := range o.Keys {
					lastTTL[k] = o.TTL
				}
			}
			ops = append(ops, o)
		case "evict-and-straddle":
			// store k, evict it from the in-memory layer by touching other keys, read it just before
			// its expiry (back-fill), then read again just after the expiry
			k := o.Keys[0]
			ops = append(ops, op{Kind: "set", View: o.View, Keys: []string{k}, Val: o.Val, TTL: o.TTL})
			for j := 0; j < spec.LRUSize+1; j++ {
				ops = append(ops, op{Kind: "set", View: o.View, Keys: []string{fmt.Sprintf("filler%d", j)}, Val: []byte{byte(j)}, TTL: 60 * time.Second})
			}
			ops = append(ops, op{Kind: "adv", Adv: o.TTL - 500*time.Millisecond},
				op{Kind: "get", View: o.View, Keys: []string{k}},
				op{Kind: "adv", Adv: time.Second},
				op{Kind: "get", View: o.View, Keys: []string{k}},
				op{Kind: "adv", Adv: spec.DefTTL - time.Second},
				op{Kind: "get", View: o.View, Keys: []string{k}},
				op{Kind: "adv", Adv: 600 * time.Millisecond},
				op{Kind: "get", View: o.View, Keys: []string{k}})
		case "mixed-read":
			// constructed: a key just written through the stack (so it is certainly in the in-memory layer,
			// with its own expiry) is read together with a key that is certainly absent there; the read must
			// not prolong the first key's life: right after its own TTL it is gone
			k := fmt.Sprintf("mixed%d", i)
			ops = append(ops, op{Kind: "set", View: o.View, Keys: []string{k}, Val: o.Val, TTL: o.TTL},
				op{Kind: "get-local-hit", View: o.View, Keys: []string{k, fmt.Sprintf("absent%d", i)}},
				op{Kind: "adv", Adv: o.TTL},
				op{Kind: "get", View: o.View, Keys: []string{k}})
		case "straddle":
			k := o.Keys[0]
			ttl, ok := lastTTL[k]
			if !ok || ttl <= 0 {
				ttl = o.TTL
				ops = append(ops, op{Kind: "set", View: o.View, Keys: []string{k}, Val: o.Val, TTL: ttl})
			}
			ops = append(ops, op{Kind: "adv", Adv: ttl - time.Millisecond}, op{Kind: "get", View: o.View, Keys: []string{k}},
				op{Kind: "adv", Adv: time.Millisecond}, op{Kind: "getwitherror", View: o.View, Keys: []string{k}})
		default:
			if o.Kind == "set" || o.Kind == "setasync" || o.Kind == "add" {
				lastTTL[o.Keys[0]] = o.TTL
			}
			ops = append(ops, o)
		}
	}
	return ops
}

func TestStacksRapid(t *testing.T) {
	rapid.Check(t, func(rt *rapid.T) {
		spec := stackSpec{
			Order:   rapid.Permutation([]string{"lru", "versioned", "snappy"}).Draw(rt, "order"),
			Use:     rapid.IntRange(0, 7).Draw(rt, "use"),
			LRUSize: rapid.IntRange(1, 4).Draw(rt, "lruSize"),
			DefTTL:  time.Duration(rapid.IntRange(1, 20).Draw(rt, "defaultTTL")) * time.Second,
		}
		versions := [2]uint{uint(rapid.IntRange(0, 2).Draw(rt, "v0")), 0}
		versions[1] = (versions[0] + 1 + uint(rapid.IntRange(0, 1).Draw(rt, "v1"))) % 3
		ops := genOps(rt, spec)
		failure, nt := runSequence(t, spec, versions, ops)
		vx.Class("sequences", 1)
		vx.Class("stack_"+strings.Join(spec.layers(), ">"), 1)
		if nt {
			vx.NonTrivial(vx.FP(fmt.Sprint(spec), fmt.Sprint(versions), fmt.Sprint(ops)))
		}
		if failure != "" {
			var sb strings.Builder
			for i, o := range ops {
				fmt.Fprintf(&sb, "  %d: %v\n", i, o)
			}
			rt.Fatalf("stack (top first) %v, lru size %d, default ttl %v, versions %v\n%s\nops:\n%s", spec.layers(), spec.LRUSize, spec.DefTTL, versions, failure, sb.String())
		}
		if vx.WantSample("op_sequence") && nt && len(ops) <= 8 {
			vx.Sample("op_sequence", map[string]any{"stack_top_first": spec.layers(), "lru_size": spec.LRUSize, "default_ttl": spec.DefTTL.String(), "ops": fmt.Sprint(ops)})
		}
	})
}

// TestAllStacks: a fixed scripted sequence on every one of the 16 stacks (each layer at most once, any order).
func TestAllStacks(t *testing.T) {
	orders := [][]string{{"lru", "versioned", "snappy"}, {"lru", "snappy", "versioned"}, {"versioned", "lru", "snappy"}, {"versioned", "snappy", "lru"}, {"snappy", "lru", "versioned"}, {"snappy", "versioned", "lru"}}
	seen := map[string]bool{}
	for _, ord := range orders {
		for use := 0; use < 8; use++ {
			spec := stackSpec{Order: ord, Use: use, LRUSize: 1, DefTTL: 7 * time.Second}
			name := strings.Join(spec.layers(), ">")
			if seen[name] {
				continue
			}
			seen[name] = true
			ops := []op{
				{Kind: "set", Keys: []string{"1@a"}, Val: []byte("v1"), TTL: 5 * time.Second},
				{Kind: "set", View: 1, Keys: []string{"1@a"}, Val: []byte("other-version"), TTL: 9 * time.Second},
				{Kind: "set", Keys: []string{"b"}, Val: bytes.Repeat([]byte("x"), 500), TTL: 3 * time.Second},
				{Kind: "get", Keys: []string{"1@a", "b", "zz"}},
				{Kind: "adv", Adv: 2999 * time.Millisecond}, {Kind: "get", Keys: []string{"b"}},
				{Kind: "adv", Adv: time.Millisecond}, {Kind: "get", Keys: []string{"b", "1@a"}},
				{Kind: "adv", Adv: 1999 * time.Millisecond}, {Kind: "getwitherror", Keys: []string{"1@a"}},
				{Kind: "adv", Adv: time.Millisecond}, {Kind: "get", Keys: []string{"1@a"}}, {Kind: "get", View: 1, Keys: []string{"1@a"}},
				{Kind: "add", Keys: []string{"1@a"}, Val: []byte{}, TTL: 4 * time.Second}, {Kind: "get", Keys: []string{"1@a"}},
				{Kind: "add", Keys: []string{"1@a"}, Val: []byte("loses"), TTL: 4 * time.Second}, {Kind: "get", Keys: []string{"1@a"}},
				{Kind: "del", Keys: []string{"1@a"}}, {Kind: "get", Keys: []string{"1@a"}}, {Kind: "get", View: 1, Keys: []string{"1@a"}},
				{Kind: "adv", Adv: 8 * time.Second}, {Kind: "get", Keys: []string{"1@a", "b"}}, {Kind: "get", View: 1, Keys: []string{"1@a"}},
			}
			if failure, _ := runSequence(t, spec, [2]uint{1, 0}, ops); failure != "" {
				t.Fatalf("stack %q: %s", name, failure)
			}
		}
	}
	if len(seen) != 16 {
		t.Fatalf("expected 16 distinct stacks, built %d", len(seen))
	}
	vx.Exhaustive("all 16 stacking orders of {in-memory LRU, versioned, snappy} (each at most once) on one scripted sequence")
}

// ---------------------------------------------------------------------------------------------
// server selection

// naturalLess: digit runs compare numerically, everything else bytewise (own implementation).
func naturalLess(a, b string) bool {
	ca, cb := chunks(a), chunks(b)
	for i := 0; i < len(ca) && i < len(cb); i++ {
		x, y := ca[i], cb[i]
		if x == y {
			continue
		}
		if isNum(x) && isNum(y) {
			xs, ys := strings.TrimLeft(x, "0"), strings.TrimLeft(y, "0")
			if len(xs) != len(ys) {
				return len(xs) < len(ys)
			}
			if xs != ys {
				return xs < ys
			}
			continue
		}
		return x < y
	}
	return len(ca) < len(cb)
}

func isNum(s string) bool { return s != "" && s[0] >= '0' && s[0] <= '9' }

func chunks(s string) []string {
	var out []string
	for i := 0; i < len(s); {
		j := i
		d := s[i] >= '0' && s[i] <= '9'
		for j < len(s) && (s[j] >= '0' && s[j] <= '9') == d {
			j++
		}
		out = append(out, s[i:j])
		i = j
	}
	return out
}

// refJump: Lamping & Veach, "A Fast, Minimal Memory, Consistent Hash Algorithm".
func refJump(key uint64, n int) int {
	var b, j int64 = -1, 0
	for j < int64(n) {
		b = j
		key = key*2862933555777941757 + 1
		j = int64(float64(b+1) * (float64(int64(1)<<31) / float64((key>>33)+1)))
	}
	return int(b)
}

func genServers(rt *rapid.T) []string {
	n := rapid.IntRange(1, 64).Draw(rt, "servers")
	seen := map[string]bool{}
	var out []string
	style := rapid.IntRange(0, 2).Draw(rt, "style")
	for len(out) < n {
		var s string
		switch style {
		case 0: // statefulset-like: same prefix, last octet varies (2 vs 10 traps)
			s = fmt.Sprintf("10.0.0.%d:11211", rapid.IntRange(1, 254).Draw(rt, "octet"))
		case 1: // same host, ports vary
			s = fmt.Sprintf("127.0.0.1:%d", rapid.IntRange(1, 20000).Draw(rt, "port"))
		default:
			s = fmt.Sprintf("10.%d.%d.%d:%d", rapid.IntRange(0, 20).Draw(rt, "b"), rapid.IntRange(0, 120).Draw(rt, "c"), rapid.IntRange(1, 254).Draw(rt, "d"), rapid.SampledFrom([]int{11211, 11212, 9, 80}).Draw(rt, "p"))
		}
		if !seen[s] {
			seen[s] = true
			out = append(out, s)
		}
	}
	return out
}

func TestSelectorRapid(t *testing.T) {
	rapid.Check(t, func(rt *rapid.T) {
		servers := genServers(rt)
		keys := rapid.SliceOfN(rapid.OneOf(rapid.String(), rapid.StringMatching(`[a-z]{1,8}:[0-9]{1,6}`), rapid.SampledFrom([]string{"", "a", "\x00", strings.Repeat("k", 300)})), 1, 20).Draw(rt, "keys")
		sorted := append([]string{}, servers...)
		sort.SliceStable(sorted, func(a, b int) bool { return naturalLess(sorted[a], sorted[b]) })
		var sel cache.MemcachedJumpHashSelector
		if err := sel.SetServers(servers...); err != nil {
			rt.Fatalf("SetServers(%v): %v", servers, err)
		}
		perm := rapid.Permutation(servers).Draw(rt, "perm")
		var sel2 cache.MemcachedJumpHashSelector
		if err := sel2.SetServers(perm...); err != nil {
			rt.Fatalf("SetServers: %v", err)
		}
		// a server that sorts last
		last := "250.250.250.250:65000"
		var sel3 cache.MemcachedJumpHashSelector
		if err := sel3.SetServers(append(append([]string{}, perm...), last)...); err != nil {
			rt.Fatalf("SetServers: %v", err)
		}
		// a long-lived selector that has been given other lists before (DNS refreshes: servers come, go and
		// come back, in any order); the placement depends on the latest list only
		var selH cache.MemcachedJumpHashSelector
		nHist := rapid.IntRange(1, 4).Draw(rt, "earlierLists")
		for h := 0; h < nHist; h++ {
			var earlier []string
			for _, sv := range servers {
				if rapid.IntRange(0, 2).Draw(rt, "keep") > 0 {
					earlier = append(earlier, sv)
				}
			}
			if rapid.Bool().Draw(rt, "withOthers") {
				have := map[string]bool{}
				for _, sv := range earlier {
					have[sv] = true
				}
				for _, sv := range genServers(rt) {
					if !have[sv] {
						have[sv] = true
						earlier = append(earlier, sv)
					}
				}
			}
			if len(earlier) == 0 {
				continue
			}
			earlier = rapid.Permutation(earlier).Draw(rt, "earlierOrder")
			if err := selH.SetServers(earlier...); err != nil {
				rt.Fatalf("SetServers(%v): %v", earlier, err)
			}
			vx.Class("selector_given_an_earlier_list", 1)
		}
		if err := selH.SetServers(perm...); err != nil {
			rt.Fatalf("SetServers: %v", err)
		}
		trap := false
		for i := 0; i+1 < len(sorted); i++ {
			if sorted[i] > sorted[i+1] {
				trap = true // natural order differs from byte order
			}
		}
		for _, k := range keys {
			vx.Eval(1)
			if trap && len(servers) >= 2 {
				vx.NonTrivial(vx.FP("sel", fmt.Sprint(servers), k))
			}
			want := sorted[0]
			if len(sorted) > 1 {
				want = sorted[refJump(xxhash.Sum64String(k), len(sorted))]
			}
			a1, err1 := sel.PickServer(k)
			a2, err2 := sel2.PickServer(k)
			a1b, _ := sel.PickServer(k)
			if err1 != nil || err2 != nil {
				rt.Fatalf("PickServer: %v %v", err1, err2)
			}
			if a1.String() != want {
				rt.Fatalf("key %q over %d servers: picked %s, want %s = naturallySorted[jump(xxhash(key), n)]\nservers=%v\nsorted=%v", k, len(servers), a1, want, servers, sorted)
			}
			if a2.String() != a1.String() || a1b.String() != a1.String() {
				rt.Fatalf("key %q: placement depends on the input order or on the call: %s vs %s vs %s", k, a1, a2, a1b)
			}
			if aH, errH := selH.PickServer(k); errH != nil || aH.String() != want {
				rt.Fatalf("key %q: a selector that was given other server lists before picks %v (err %v), a fresh one %s\nservers=%v", k, aH, errH, want, servers)
			}
			a3, err3 := sel3.PickServer(k)
			if err3 != nil {
				rt.Fatalf("PickServer: %v", err3)
			}
			if !naturalLess(sorted[len(sorted)-1], last) {
				rt.Fatalf("harness: %s does not sort last", last)
			}
			if a3.String() != a1.String() && a3.String() != last {
				rt.Fatalf("key %q: appending %s at the end moved the key from %s to %s", k, last, a1, a3)
			}
		}
		if vx.WantSample("server_list") && len(servers) <= 5 && trap {
			vx.Sample("server_list", map[string]any{"servers": servers, "natural_order": sorted})
		}
	})
}

func TestSelectorEmpty(t *testing.T) {
	var sel cache.MemcachedJumpHashSelector
	vx.Eval(1)
	if _, err := sel.PickServer("k"); err == nil {
		t.Fatalf("PickServer on an empty list must fail")
	}
}
