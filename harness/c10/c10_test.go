// Package c10: batched quorum writes succeed only with quorum on every key, and always finish.
package c10

import (
	"context"
	"errors"
	"fmt"
	"sort"
	"strings"
	"sync"
	"testing"
	"time"

	"pgregory.net/rapid"

	"github.com/grafana/dskit/httpgrpc"
	"github.com/grafana/dskit/ring"

	"verifharness/internal/fakekv"
	"verifharness/internal/gen"
	"verifharness/internal/vx"
)

func TestMain(m *testing.M) {
	vx.Rule("an execution is non-trivial when >= 2 keys share a replica whose outcome differs from another replica's, or the caller's context is cancelled between two completions; distinct = distinct (ring, keys, outcomes, completion order, cancel point, spawner) fingerprint")
	vx.Assume("replicas have unique addresses (grouping is by address)")
	vx.Assume("'immediately' = at the quiescent point after the offending completion (virtual clock, harness releases one replica call at a time)")
	vx.Assume("per-key replica sets and tolerances are taken from the ring's own Get (their correctness is C01's subject)")
	vx.Main(m)
}

type clientErr struct{ s string }

func (e clientErr) Error() string { return e.s }

type scenario struct {
	Ins        []gen.Inst        `json:"instances"`
	RF         int               `json:"rf"`
	Keys       []uint32          `json:"keys"`
	Outcomes   map[string]string `json:"outcomes"`  // addr -> ok | client | server
	Prio       []string          `json:"priority"`  // completion order: highest-priority parked call is released first
	CancelAt   int               `json:"cancel_at"` // -2: with every call in flight; -1: before the call; k: after the k-th completion; 99: never
	Workers    int               `json:"workers"`   // 0: plain goroutines; n: pool of n workers as custom spawner
	DefaultCls bool              `json:"default_classifier"`
}

type result struct {
	failure    string
	class      string
	nontrivial bool
	calls      int
}

func execute(t *testing.T, sc scenario) (res result) {
	vx.Bubble(t, func(b *vx.B) {
		r := fakekv.NewRing(ring.Config{HeartbeatTimeout: time.Minute, ReplicationFactor: sc.RF}, gen.Desc(sc.Ins, time.Now()))
		b.Cleanup(r.Stop)
		type keyInfo struct {
			addrs      []string
			minSuccess int
			maxErr     int
		}
		var infos []keyInfo
		getFails := false
		for _, k := range sc.Keys {
			rs, err := r.Get(k, ring.Write, nil, nil, nil)
			if err != nil {
				getFails = true
				break
			}
			infos = append(infos, keyInfo{rs.GetAddresses(), len(rs.Instances) - rs.MaxErrors, rs.MaxErrors})
		}
		expectedCalls := map[string][]int{}
		for i, ki := range infos {
			for _, a := range ki.addrs {
				expectedCalls[a] = append(expectedCalls[a], i)
			}
		}
		var mu sync.Mutex
		parked := map[string]chan error{}
		gotCalls := map[string][]int{}
		dupCall := ""
		finished, cleanups, cleanupAfter := 0, 0, -1
		ctx, cancel := context.WithCancelCause(context.Background())
		cause := errors.New("caller gave up")
		var retErr error
		returned, returnCount := false, 0

		opts := ring.DoBatchOptions{
			Cleanup: func() {
				mu.Lock()
				cleanups++
				cleanupAfter = finished
				mu.Unlock()
			},
		}
		if !sc.DefaultCls {
			opts.IsClientError = func(e error) bool { _, ok := e.(clientErr); return ok }
		}
		var poolStop chan struct{}
		if sc.Workers > 0 {
			tasks := make(chan func(), 64)
			poolStop = make(chan struct{})
			for w := 0; w < sc.Workers; w++ {
				go func() {
					for {
						select {
						case f := <-tasks:
							f()
						case <-poolStop:
							return
						}
					}
				}()
			}
			opts.Go = func(f func()) { tasks <- f }
		}
		releaseRest := func() {
			for i := 0; i < 64; i++ {
				vx.Wait()
				mu.Lock()
				var chs []chan error
				for k, ch := range parked {
					chs = append(chs, ch)
					delete(parked, k)
				}
				mu.Unlock()
				if len(chs) == 0 {
					break
				}
				for _, ch := range chs {
					ch <- nil
				}
			}
		}
		b.Cleanup(func() {
			cancel(nil)
			releaseRest()
			vx.Wait()
			if poolStop != nil {
				close(poolStop)
			}
		})
		go func() {
			err := ring.DoBatchWithOptions(ctx, ring.Write, r.Ring, sc.Keys, func(d ring.InstanceDesc, idx []int) error {
				ch := make(chan error)
				mu.Lock()
				if _, dup := gotCalls[d.Addr]; dup {
					dupCall = d.Addr
				}
				gotCalls[d.Addr] = append([]int(nil), idx...)
				parked[d.Addr] = ch
				mu.Unlock()
				e := <-ch
				mu.Lock()
				finished++
				mu.Unlock()
				return e
			}, opts)
			mu.Lock()
			retErr, returned = err, true
			returnCount++
			mu.Unlock()
		}()
		fail := func(f string, a ...any) {
			if res.failure == "" {
				res.failure = fmt.Sprintf(f, a...)
			}
		}
		cancelled := false
		if sc.CancelAt == -1 {
			cancel(cause)
			cancelled = true
		}
		vx.Wait()
		if sc.CancelAt == -2 && !getFails {
			// the caller gives up while every replica call is in flight and none has answered
			cancel(cause)
			cancelled = true
			vx.Wait()
			res.nontrivial = true
		}
		if getFails {
			mu.Lock()
			defer mu.Unlock()
			if !returned || retErr == nil || len(gotCalls) != 0 || cleanups != 1 {
				fail("a key lookup fails: returned=%v err=%v calls=%v cleanups=%d (want: error, no calls, one cleanup)", returned, retErr, gotCalls, cleanups)
			}
			res.class = "lookup_fails"
			return
		}
		type kstate struct{ succ, cli, srv, answered int }
		ks := make([]kstate, len(infos))
		returnedErrs := map[error]bool{}
		var firstResult error
		firstSeen := false
		check := func(step int) {
			mu.Lock()
			defer mu.Unlock()
			allQuorum, impossible, mustFail := true, false, false
			for i, ki := range infos {
				s := ks[i]
				if s.succ < ki.minSuccess {
					allQuorum = false
				}
				if s.cli+s.srv > ki.maxErr {
					impossible = true
				}
				if s.cli > ki.maxErr || s.srv > ki.maxErr || (s.answered == len(ki.addrs) && s.succ < ki.minSuccess) {
					mustFail = true
				}
			}
			if dupCall != "" {
				fail("step %d: replica %s called twice", step, dupCall)
			}
			if returned {
				if firstSeen && retErr != firstResult {
					fail("step %d: the result changed from %v to %v", step, firstResult, retErr)
				}
				if !firstSeen {
					firstSeen, firstResult = true, retErr
					switch {
					case retErr == nil:
						if !allQuorum {
							fail("step %d: success reported although some key lacks its quorum: per-key %+v, sets %+v", step, ks, infos)
						}
					case cancelled && retErr == cause:
					case returnedErrs[retErr]:
						if !impossible {
							fail("step %d: error %v reported while every key can still reach its quorum: per-key %+v, sets %+v", step, retErr, ks, infos)
						}
					default:
						fail("step %d: returned error %v, which no replica returned (context ended: %v)", step, retErr, cancelled)
					}
				}
			} else {
				if mustFail {
					fail("step %d: some key ended without quorum (or one error family exceeded its tolerance) but no error was reported yet: per-key %+v, sets %+v", step, ks, infos)
				}
				if cancelled {
					fail("step %d: the caller's context ended but DoBatch has not returned", step)
				}
			}
		}
		check(-1)
		step := 0
		mixed := false
		for res.failure == "" {
			vx.Wait()
			mu.Lock()
			var pick string
			for _, a := range sc.Prio {
				if _, ok := parked[a]; ok {
					pick = a
					break
				}
			}
			var ch chan error
			if pick != "" {
				ch = parked[pick]
				delete(parked, pick)
			}
			mu.Unlock()
			if ch == nil {
				break
			}
			var e error
			switch sc.Outcomes[pick] {
			case "client":
				if sc.DefaultCls {
					e = httpgrpc.Errorf(400, "client %s", pick)
				} else {
					e = clientErr{"client " + pick}
				}
			case "server":
				if sc.DefaultCls {
					e = httpgrpc.Errorf(503, "server %s", pick)
				} else {
					e = fmt.Errorf("server %s", pick)
				}
			}
			if e != nil {
				returnedErrs[e] = true
			}
			for _, ki := range expectedCalls[pick] {
				ks[ki].answered++
				switch sc.Outcomes[pick] {
				case "ok":
					ks[ki].succ++
				case "client":
					ks[ki].cli++
				default:
					ks[ki].srv++
				}
			}
			ch <- e
			vx.Wait()
			check(step)
			if step == sc.CancelAt && !cancelled {
				mu.Lock()
				pending := len(parked) > 0 || finished < len(expectedCalls)
				mu.Unlock()
				if pending {
					res.nontrivial = true
				}
				cancel(cause)
				cancelled = true
				vx.Wait()
				check(step)
			}
			step++
		}
		vx.Wait()
		mu.Lock()
		defer mu.Unlock()
		if res.failure != "" {
			return
		}
		res.calls = len(gotCalls)
		if sc.CancelAt != -1 && fmt.Sprint(sortedMap(gotCalls)) != fmt.Sprint(sortedMap(expectedCalls)) {
			fail("replica calls %v, want every selected replica once with the indexes of its keys: %v", sortedMap(gotCalls), sortedMap(expectedCalls))
		}
		if sc.CancelAt == -1 && len(gotCalls) != 0 && fmt.Sprint(sortedMap(gotCalls)) != fmt.Sprint(sortedMap(expectedCalls)) {
			fail("context ended before the call: replica calls %v are neither none nor the full set %v", sortedMap(gotCalls), sortedMap(expectedCalls))
		}
		if !returned {
			fail("all %d replica calls have returned but DoBatch has not returned (keys=%d)", len(gotCalls), len(sc.Keys))
			return
		}
		if returnCount != 1 {
			fail("returned %d times", returnCount)
		}
		if cleanups != 1 || cleanupAfter != len(gotCalls) {
			fail("cleanup ran %d times, after %d of %d replica calls had finished (want once, after all)", cleanups, cleanupAfter, len(gotCalls))
		}
		switch {
		case retErr == nil:
			res.class = "success"
		case retErr == cause:
			res.class = "cancelled"
		default:
			res.class = "error"
		}
		// non-trivial: two keys share a replica and outcomes are mixed
		for a, idx := range expectedCalls {
			if len(idx) >= 2 {
				for b2 := range expectedCalls {
					if sc.Outcomes[b2] != sc.Outcomes[a] {
						mixed = true
					}
				}
			}
		}
		if mixed {
			res.nontrivial = true
		}
	})
	return res
}

func sortedMap(m map[string][]int) []string {
	var out []string
	for k, v := range m {
		out = append(out, fmt.Sprint(k, v))
	}
	sort.Strings(out)
	return out
}

func addrs(ins []gen.Inst) []string {
	var a []string
	for _, in := range ins {
		a = append(a, in.ID+":1")
	}
	return a
}

func (sc scenario) String() string {
	return fmt.Sprintf("instances=%v rf=%d keys=%v outcomes=%v order=%v cancelAt=%d workers=%d defaultClassifier=%v", sc.Ins, sc.RF, sc.Keys, sc.Outcomes, sc.Prio, sc.CancelAt, sc.Workers, sc.DefaultCls)
}

func TestBatchRapid(t *testing.T) {
	rapid.Check(t, func(rt *rapid.T) {
		ins := gen.Instances(rt, gen.Opts{MinN: 1, MaxN: 6, MinTok: 1, MaxTok: 3, HealthyBias: true})
		sc := scenario{Ins: ins, RF: rapid.IntRange(1, 5).Draw(rt, "rf")}
		nKeys := rapid.IntRange(0, 4).Draw(rt, "keys")
		bk := gen.BoundaryKeys(ins)
		for i := 0; i < nKeys; i++ {
			if rapid.Bool().Draw(rt, "boundaryKey") {
				sc.Keys = append(sc.Keys, rapid.SampledFrom(bk).Draw(rt, "bkey"))
			} else {
				sc.Keys = append(sc.Keys, rapid.Uint32().Draw(rt, "key"))
			}
		}
		sc.Outcomes = map[string]string{}
		for _, a := range addrs(ins) {
			sc.Outcomes[a] = rapid.SampledFrom([]string{"ok", "ok", "ok", "ok", "ok", "ok", "ok", "client", "server", "server"}).Draw(rt, "outcome")
		}
		sc.Prio = rapid.Permutation(addrs(ins)).Draw(rt, "order")
		sc.CancelAt = 99
		if rapid.IntRange(0, 2).Draw(rt, "cancel") == 0 {
			sc.CancelAt = rapid.IntRange(-2, len(ins)).Draw(rt, "cancelAt")
		}
		if rapid.IntRange(0, 2).Draw(rt, "pool") == 0 {
			sc.Workers = rapid.IntRange(1, 3).Draw(rt, "workers")
		}
		sc.DefaultCls = rapid.Bool().Draw(rt, "defaultClassifier")
		res := execute(t, sc)
		vx.Eval(1)
		vx.Class("outcome_"+res.class, 1)
		if len(sc.Keys) == 0 {
			vx.Class("empty_key_list", 1)
		}
		if res.nontrivial {
			vx.NonTrivial(vx.FP(sc.String()))
		}
		if res.failure != "" {
			rt.Fatalf("%s\n%s", res.failure, sc)
		}
		if vx.WantSample("batch_execution") && res.nontrivial && len(ins) <= 4 {
			vx.Sample("batch_execution", map[string]any{"scenario": sc.String(), "result": res.class})
		}
	})
}

func permutations(xs []string) [][]string {
	if len(xs) <= 1 {
		return [][]string{append([]string{}, xs...)}
	}
	var out [][]string
	for i := range xs {
		rest := append(append([]string{}, xs[:i]...), xs[i+1:]...)
		for _, p := range permutations(rest) {
			out = append(out, append([]string{xs[i]}, p...))
		}
	}
	return out
}

// TestBatchExhaustive: fixed small rings; every outcome assignment x every completion order x every cancel point.
func TestBatchExhaustive(t *testing.T) {
	var rc scenario
	if vx.ReplayCase("TestBatchExhaustive", &rc) {
		if res := execute(t, rc); res.failure != "" {
			t.Fatalf("replay: %s\n%s", res.failure, rc)
		}
		return
	}
	mk := func(n int) []gen.Inst {
		var ins []gen.Inst
		for i := 0; i < n; i++ {
			ins = append(ins, gen.Inst{ID: fmt.Sprintf("i%d", i), Tokens: []uint32{uint32(i+1) * 1000}, State: ring.ACTIVE})
		}
		return ins
	}
	type fixture struct {
		ins  []gen.Inst
		rf   int
		keys []uint32
	}
	fixtures := []fixture{
		{mk(3), 3, []uint32{10, 1500}},       // 3 calls, both keys on all replicas
		{mk(4), 3, []uint32{10, 1500}},       // 4 calls, overlapping triples
		{mk(3), 2, []uint32{10, 1500, 2500}}, // 3 calls, pairs
		{mk(2), 1, []uint32{10, 1500}},       // RF 1: no tolerance
		{mk(3), 3, nil},                      // empty key list
	}
	if vx.Thorough() {
		fixtures = append(fixtures, fixture{mk(4), 4, []uint32{10}}, fixture{mk(4), 2, []uint32{10, 1500, 2500, 3500}}, fixture{mk(5), 3, []uint32{10, 2500}})
	}
	// one unhealthy instance variant
	sick := mk(4)
	sick[1].AgeSec = 600
	fixtures = append(fixtures, fixture{sick, 3, []uint32{10, 1500}})
	idx := 0
	for fi, f := range fixtures {
		as := addrs(f.ins)
		n := len(as)
		total := 1
		for i := 0; i < n; i++ {
			total *= 3
		}
		perms := permutations(as)
		for code := 0; code < total; code++ {
			out := map[string]string{}
			c := code
			for _, a := range as {
				out[a] = []string{"ok", "client", "server"}[c%3]
				c /= 3
			}
			for _, p := range perms {
				for cancelAt := -2; cancelAt <= n; cancelAt++ {
					idx++
					if !vx.Mine(idx) {
						continue
					}
					ca := cancelAt
					if ca == n {
						ca = 99
					}
					sc := scenario{Ins: f.ins, RF: f.rf, Keys: f.keys, Outcomes: out, Prio: p, CancelAt: ca, Workers: idx % 3 % 2 * (1 + idx%2), DefaultCls: idx%5 == 0}
					res := execute(t, sc)
					vx.Eval(1)
					vx.Class("outcome_"+res.class, 1)
					if res.nontrivial {
						vx.NonTrivial(vx.FP("ex", fi, code, strings.Join(p, ","), cancelAt))
					}
					if res.failure != "" {
						vx.Failf(t, "TestBatchExhaustive", sc, "%s\n%s", res.failure, sc)
					}
				}
			}
		}
	}
	vx.Exhaustive(fmt.Sprintf("%d fixed rings (<= %d replica calls): every assignment of {ok, client error, server error} x every completion order x every cancellation point incl. before the call and never", len(fixtures), 5))
}

// TestRegressEmptyKeys: finding F1: an empty key list must return (nil) and run the cleanup once.
func TestRegressEmptyKeys(t *testing.T) {
	for _, workers := range []int{0, 1} {
		sc := scenario{Ins: []gen.Inst{{ID: "i0", Tokens: []uint32{5}, State: ring.ACTIVE}}, RF: 1, Keys: nil, Outcomes: map[string]string{"i0:1": "ok"}, Prio: []string{"i0:1"}, CancelAt: 99, Workers: workers}
		res := execute(t, sc)
		vx.Eval(1)
		if res.failure != "" {
			t.Fatalf("%s", res.failure)
		}
		if res.class != "success" {
			t.Fatalf("empty key list: result class %q, want success", res.class)
		}
	}
}
