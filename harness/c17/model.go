// Package c17: services and their manager follow the state machine on every interleaving.
package c17

import "fmt"

// svcModel is the reference state machine of one service built from three optional functions.
type svcModel struct {
	hasStart, hasRun, hasStop bool

	state           string
	parked          string // "", "start", "run", "stop": the function currently executing (gated)
	cancelled       bool   // service context cancelled
	parentCancelled bool
	failure         string
	events          []string // every transition since New, rendered like the listener sees it
	calls           []string // gated functions entered, in order
	ranRunning      bool
}

func newSvcModel(hasStart, hasRun, hasStop bool) *svcModel {
	return &svcModel{hasStart: hasStart, hasRun: hasRun, hasStop: hasStop, state: "New"}
}

func (m *svcModel) ev(e string) { m.events = append(m.events, e) }

func (m *svcModel) terminal() bool { return m.state == "Terminated" || m.state == "Failed" }

func (m *svcModel) afterStart(err string) {
	switch {
	case err != "":
		m.state, m.failure = "Failed", err
		m.cancelled = true
		m.ev("Failed(Starting," + err + ")")
	case m.cancelled:
		m.toStopping("Starting")
	default:
		m.state = "Running"
		m.ranRunning = true
		m.ev("Running")
		if m.hasRun {
			m.parked = "run"
			m.calls = append(m.calls, "run")
		} else {
			m.afterRun("")
		}
	}
}

func (m *svcModel) afterRun(err string) {
	m.failure = err
	m.toStopping("Running")
}

func (m *svcModel) toStopping(from string) {
	m.state = "Stopping"
	m.cancelled = true
	m.ev("Stopping(" + from + ")")
	if m.hasStop {
		m.parked = "stop"
		m.calls = append(m.calls, "stop")
	} else {
		m.afterStop("")
	}
}

func (m *svcModel) afterStop(err string) {
	if m.failure == "" {
		m.failure = err
	}
	if m.failure != "" {
		m.state = "Failed"
		m.ev("Failed(Stopping," + m.failure + ")")
	} else {
		m.state = "Terminated"
		m.ev("Terminated(Stopping)")
	}
}

// apply executes one operation; it returns false when the operation is not enabled in this state.
// startErr reports what StartAsync must return ("" = nil).
func (m *svcModel) apply(op string) (enabled bool) {
	switch op {
	case "start":
		if m.state != "New" {
			return true // StartAsync returns an error, nothing changes
		}
		m.state = "Starting"
		m.ev("Starting")
		if m.parentCancelled {
			m.cancelled = true
		}
		if m.hasStart {
			m.parked = "start"
			m.calls = append(m.calls, "start")
		} else {
			m.afterStart("")
		}
	case "stop":
		switch m.state {
		case "New":
			m.state = "Terminated"
			m.ev("Terminated(New)")
		case "Starting", "Running":
			m.cancelled = true
		}
	case "cancelParent":
		m.parentCancelled = true
		if m.state == "Starting" || m.state == "Running" {
			m.cancelled = true
		}
	case "relStartOK", "relStartErr":
		if m.parked != "start" {
			return false
		}
		m.parked = ""
		if op == "relStartErr" {
			m.afterStart("start-err")
		} else {
			m.afterStart("")
		}
	case "relRunOK", "relRunErr":
		if m.parked != "run" {
			return false
		}
		m.parked = ""
		if op == "relRunErr" {
			m.afterRun("run-err")
		} else {
			m.afterRun("")
		}
	case "relStopOK", "relStopErr":
		if m.parked != "stop" {
			return false
		}
		m.parked = ""
		if op == "relStopErr" {
			m.afterStop("stop-err")
		} else {
			m.afterStop("")
		}
	default:
		panic(fmt.Sprintf("unknown op %q", op))
	}
	return true
}

// runningDecided / terminatedDecided: has the question "will it reach X" been settled?
func (m *svcModel) runningDecided() bool {
	return m.ranRunning || m.state == "Stopping" || m.terminal()
}
func (m *svcModel) terminatedDecided() bool { return m.terminal() }
