package c17

import (
	"context"
	"errors"
	"fmt"
	"strings"
	"sync"
	"testing"
	"time"

	"pgregory.net/rapid"

	"github.com/grafana/dskit/services"

	"verifharness/internal/vx"
)

func TestMain(m *testing.M) {
	vx.Rule("a sequence is non-trivial when it contains a StopAsync or parent cancellation while Starting, or a listener added/removed after the service left New; managers: a run with >= 2 services in which one fails or is stopped individually; distinct = distinct (function subset, operation sequence)")
	vx.Assume("virtual clock (testing/synctest): observations are taken at quiescent points after each operation (or batch of releases for managers)")
	vx.Assume("within one batch of manager operations the order in which different services' notifications reach the manager is left to the Go scheduler; aggregate callbacks that depend on that order are bounded, not fixed")
	vx.Main(m)
}

// errRunCanceled prints like the plain running-function error and wraps context.Canceled.
var errRunCanceled error = wrappingErr{"run-err", context.Canceled}

type wrappingErr struct {
	msg   string
	inner error
}

func (w wrappingErr) Error() string { return w.msg }
func (w wrappingErr) Unwrap() error { return w.inner }

var errByName = map[string]error{"start-err": errors.New("start-err"), "run-err": errors.New("run-err"), "stop-err": errors.New("stop-err")}

// gated is one service whose three functions park until the harness releases them.
type gated struct {
	mu      sync.Mutex
	entered []string
	parked  map[string]chan error
	ctxDone map[string]bool
	svc     *services.BasicService
}

func newGated(hasStart, hasRun, hasStop bool) *gated {
	g := &gated{parked: map[string]chan error{}, ctxDone: map[string]bool{}}
	var sf services.StartingFn
	var rf services.RunningFn
	var pf services.StoppingFn
	if hasStart {
		sf = func(ctx context.Context) error { return g.gate("start", ctx.Err() != nil) }
	}
	if hasRun {
		rf = func(ctx context.Context) error { return g.gate("run", ctx.Err() != nil) }
	}
	if hasStop {
		pf = func(_ error) error { return g.gate("stop", g.svc.ServiceContext().Err() != nil) }
	}
	g.svc = services.NewBasicService(sf, rf, pf)
	return g
}

func (g *gated) gate(name string, ctxDone bool) error {
	ch := make(chan error)
	g.mu.Lock()
	g.entered = append(g.entered, name)
	g.parked[name] = ch
	g.ctxDone[name] = ctxDone
	g.mu.Unlock()
	return <-ch
}

func (g *gated) release(name string, err error) bool {
	g.mu.Lock()
	ch := g.parked[name]
	delete(g.parked, name)
	g.mu.Unlock()
	if ch == nil {
		return false
	}
	ch <- err
	return true
}

func (g *gated) releaseAll() {
	g.mu.Lock()
	var chs []chan error
	for k, ch := range g.parked {
		chs = append(chs, ch)
		delete(g.parked, k)
	}
	g.mu.Unlock()
	for _, ch := range chs {
		ch <- nil
	}
}

type lst struct {
	mu      sync.Mutex
	from    int // index into the model's event list at registration; -1: added in a terminal state
	got     []string
	remove  func()
	removed bool
	atRem   int
	busy    bool
	overlap bool
}

func (l *lst) rec(e string) {
	l.mu.Lock()
	if l.busy {
		l.overlap = true
	}
	l.busy = true
	l.got = append(l.got, e)
	l.mu.Unlock()
	time.Sleep(time.Millisecond) // a callback takes time: overlapping deliveries become visible
	l.mu.Lock()
	l.busy = false
	l.mu.Unlock()
}

func (l *lst) listener() services.Listener {
	return services.NewListener(
		func() { l.rec("Starting") }, func() { l.rec("Running") },
		func(from services.State) { l.rec(fmt.Sprintf("Stopping(%v)", from)) },
		func(from services.State) { l.rec(fmt.Sprintf("Terminated(%v)", from)) },
		func(from services.State, err error) { l.rec(fmt.Sprintf("Failed(%v,%v)", from, err)) })
}

type waiter struct {
	kind     string
	cancel   context.CancelFunc
	mu       sync.Mutex
	returned bool
	err      error
	// model-side bookkeeping
	expectReturned bool
	expectState    string // model state at the step the waiter had to return
	cancelled      bool
	waitedThrough  bool // it was still waiting after the step it was registered in
	eitherOutcome  bool // it was waiting while the service passed through Running without staying there
}

func settle() {
	vx.Wait()
	time.Sleep(20 * time.Millisecond)
	vx.Wait()
}

var svcOps = []string{"start", "stop", "cancelParent", "relStartOK", "relStartErr", "relRunOK", "relRunErr", "relStopOK", "relStopErr", "addListener", "removeListener", "removeListenerEarly", "awaitRunning", "awaitTerminated", "cancelWaiter"}

// enabledSeq replays the sequence on the model only and tells whether every op is enabled.
func enabledSeq(fns [3]bool, seq []string) bool {
	m := newSvcModel(fns[0], fns[1], fns[2])
	listeners, waiters := 0, 0
	for i, op := range seq {
		switch op {
		case "addListener":
			listeners++
		case "removeListenerEarly":
			// the removal follows the previous operation at once, while the callbacks that operation caused
			// are executing or still queued: only after an operation that makes the service move
			if listeners == 0 || i == 0 || !movesService(seq[i-1]) {
				return false
			}
			listeners--
		case "removeListener":
			if listeners == 0 {
				return false
			}
			listeners--
		case "awaitRunning", "awaitTerminated":
			waiters++
		case "cancelWaiter":
			if waiters == 0 {
				return false
			}
			waiters--
		default:
			if !m.apply(op) {
				return false
			}
		}
	}
	return true
}

func movesService(op string) bool {
	switch op {
	case "start", "stop", "cancelParent", "relStartOK", "relStartErr", "relRunOK", "relRunErr", "relStopOK", "relStopErr":
		return true
	}
	return false
}

func nontrivialSeq(fns [3]bool, seq []string) bool {
	m := newSvcModel(fns[0], fns[1], fns[2])
	for _, op := range seq {
		switch op {
		case "addListener", "removeListener", "removeListenerEarly":
			if m.state != "New" {
				return true
			}
		case "awaitRunning", "awaitTerminated", "cancelWaiter":
		default:
			if (op == "stop" || op == "cancelParent") && m.state == "Starting" {
				return true
			}
			m.apply(op)
		}
	}
	return false
}

// runSequence executes an enabled sequence against a real service and the model; returns a failure text.
func runSequence(t *testing.T, fns [3]bool, seq []string) (failure string) {
	vx.Bubble(t, func(b *vx.B) {
		// in every second sequence the running function's error wraps context.Canceled (a running function that
		// returns its context's error): an error is an error, the first one is the failure cause
		errs := map[string]error{"start-err": errByName["start-err"], "run-err": errByName["run-err"], "stop-err": errByName["stop-err"]}
		if len(strings.Join(seq, ","))%2 == 0 {
			errs["run-err"] = errRunCanceled
		}
		g := newGated(fns[0], fns[1], fns[2])
		svc := g.svc
		parent, cancelParent := context.WithCancel(context.Background())
		m := newSvcModel(fns[0], fns[1], fns[2])
		var lsts, active []*lst
		var waiters []*waiter
		b.Cleanup(func() {
			cancelParent()
			for _, w := range waiters {
				w.cancel()
			}
			svc.StopAsync()
			for i := 0; i < 4; i++ {
				settle()
				g.releaseAll()
			}
			settle()
			for _, l := range active {
				l.remove()
			}
		})
		fail := func(f string, a ...any) {
			if failure == "" {
				failure = fmt.Sprintf("functions(start,run,stop)=%v seq=%v: ", fns, seq) + fmt.Sprintf(f, a...)
			}
		}
		for si, op := range seq {
			switch op {
			case "start":
				err := svc.StartAsync(parent)
				if (err == nil) != (m.state == "New") {
					fail("step %d: StartAsync returned %v in state %s", si, err, m.state)
				}
			case "stop":
				svc.StopAsync()
			case "cancelParent":
				cancelParent()
			case "relStartOK", "relStartErr", "relRunOK", "relRunErr", "relStopOK", "relStopErr":
				name := strings.ToLower(strings.TrimSuffix(strings.TrimSuffix(strings.TrimPrefix(op, "rel"), "OK"), "Err"))
				var err error
				if strings.HasSuffix(op, "Err") {
					err = errs[name+"-err"]
				}
				if !g.release(name, err) {
					fail("step %d: the model says the %s function is executing, the service has not entered it", si, name)
					return
				}
			case "addListener":
				l := &lst{from: len(m.events)}
				if m.terminal() {
					l.from = -1
				}
				l.remove = svc.AddListener(l.listener())
				lsts = append(lsts, l)
				active = append(active, l)
			case "removeListener", "removeListenerEarly":
				l := active[0]
				active = active[1:]
				l.remove()
				l.mu.Lock()
				l.removed, l.atRem = true, len(l.got)
				l.mu.Unlock()
			case "awaitRunning", "awaitTerminated":
				wctx, wcancel := context.WithCancel(context.Background())
				w := &waiter{kind: op, cancel: wcancel}
				waiters = append(waiters, w)
				go func() {
					var err error
					if w.kind == "awaitRunning" {
						err = svc.AwaitRunning(wctx)
					} else {
						err = svc.AwaitTerminated(wctx)
					}
					w.mu.Lock()
					w.returned, w.err = true, err
					w.mu.Unlock()
				}()
			case "cancelWaiter":
				for _, w := range waiters {
					if !w.cancelled {
						w.cancelled = true
						w.cancel()
						break
					}
				}
			}
			switch op {
			case "addListener", "removeListener", "removeListenerEarly", "awaitRunning", "awaitTerminated", "cancelWaiter":
			default:
				m.apply(op)
			}
			if si+1 < len(seq) && seq[si+1] == "removeListenerEarly" {
				// no settling: the next operation removes a listener while the callbacks this one caused are
				// executing (a callback takes a millisecond) or queued behind the one executing
				vx.Wait()
				continue
			}
			settle()

			// ---- observations at the quiescent point
			if got := svc.State().String(); got != m.state {
				fail("step %d (%s): state %s, model %s", si, op, got, m.state)
			}
			g.mu.Lock()
			entered := append([]string{}, g.entered...)
			stopCtxDone, stopEntered := g.ctxDone["stop"], false
			for _, e := range entered {
				if e == "stop" {
					stopEntered = true
				}
			}
			g.mu.Unlock()
			if fmt.Sprint(entered) != fmt.Sprint(m.calls) {
				fail("step %d (%s): functions entered %v, model %v", si, op, entered, m.calls)
			}
			if stopEntered && !stopCtxDone {
				fail("step %d (%s): the service context was not cancelled when the stopping function was entered", si, op)
			}
			if len(m.events) > 0 && m.events[0] == "Starting" {
				ctx := svc.ServiceContext()
				if ctx == nil || (ctx.Err() != nil) != m.cancelled {
					fail("step %d (%s): service context cancelled=%v, model %v", si, op, ctx != nil && ctx.Err() != nil, m.cancelled)
				}
			}
			for li, l := range lsts {
				l.mu.Lock()
				got := append([]string{}, l.got...)
				overlap := l.overlap
				l.mu.Unlock()
				if overlap {
					fail("step %d (%s): two callbacks of listener %d ran at the same time", si, op, li)
				}
				switch {
				case l.from == -1:
					if len(got) != 0 {
						fail("step %d: listener %d added in a terminal state received %v", si, li, got)
					}
				case l.removed:
					if len(got) != l.atRem {
						fail("step %d: listener %d received events after its remove function returned: %v (had %d)", si, li, got, l.atRem)
					}
					want := m.events[l.from:]
					if len(got) > len(want) || fmt.Sprint(got) != fmt.Sprint(want[:len(got)]) {
						fail("step %d: removed listener %d saw %v, which is not a prefix of %v", si, li, got, want)
					}
				default:
					want := m.events[l.from:]
					if fmt.Sprint(got) != fmt.Sprint(append([]string{}, want...)) {
						fail("step %d (%s): listener %d saw %v, model %v", si, op, li, got, want)
					}
				}
			}
			for wi, w := range waiters {
				decided := m.runningDecided()
				okState := "Running"
				if w.kind == "awaitTerminated" {
					decided, okState = m.terminatedDecided(), "Terminated"
				}
				if !w.expectReturned && (decided || w.cancelled) {
					w.expectReturned = true
					w.expectState = m.state
					if !decided {
						w.expectState = "cancelled"
					}
					// a service without running function is Running only for an instant: a waiter released by
					// reaching Running reads the state when it wakes up, so it reports success or the state the
					// service has moved on to - whichever the scheduler makes it see
					if decided && w.kind == "awaitRunning" && w.waitedThrough && m.ranRunning && !m.hasRun && m.state != "Running" {
						w.eitherOutcome = true
					}
				}
				if !w.expectReturned {
					w.waitedThrough = true
				}
				w.mu.Lock()
				ret, err := w.returned, w.err
				w.mu.Unlock()
				if ret != w.expectReturned {
					fail("step %d (%s): waiter %d (%s) returned=%v, expected %v (model state %s)", si, op, wi, w.kind, ret, w.expectReturned, m.state)
					continue
				}
				if !ret {
					continue
				}
				switch {
				case w.expectState == "cancelled":
					if !errors.Is(err, context.Canceled) {
						fail("step %d: cancelled waiter %d returned %v", si, wi, err)
					}
				case w.expectState == okState:
					if err != nil {
						fail("step %d: waiter %d (%s) returned %v although the state was %s", si, wi, w.kind, err, okState)
					}
				default:
					if err == nil && w.eitherOutcome {
						break
					}
					if err == nil {
						fail("step %d: waiter %d (%s) returned nil although the state was %s", si, wi, w.kind, w.expectState)
					}
					if w.expectState == "Failed" && m.failure != "" && !errors.Is(err, errs[m.failure]) {
						fail("step %d: waiter %d error %v does not carry the failure cause %s", si, wi, err, m.failure)
					}
				}
			}
			fc := svc.FailureCase()
			if m.state == "Failed" {
				if fc == nil || fc != errs[m.failure] {
					fail("step %d (%s): failure cause %v, model %s", si, op, fc, m.failure)
				}
			} else if fc != nil {
				fail("step %d (%s): failure cause %v in state %s", si, op, fc, m.state)
			}
			if failure != "" {
				return
			}
		}
	})
	return failure
}

func dfs(t *testing.T, fns [3]bool, depth int, counter *int) {
	var rec func(seq []string)
	rec = func(seq []string) {
		if len(seq) > 0 {
			if !enabledSeq(fns, seq) {
				return
			}
			*counter++
			if vx.Mine(*counter) {
				vx.Eval(1)
				if nontrivialSeq(fns, seq) {
					vx.NonTrivial(vx.FP(fns, strings.Join(seq, ",")))
				}
				if f := runSequence(t, fns, seq); f != "" {
					vx.Failf(t, "TestServiceDFS", map[string]any{"fns": fns, "seq": seq}, "%s", f)
				}
			}
		}
		if len(seq) == depth {
			return
		}
		for _, op := range svcOps {
			rec(append(append([]string(nil), seq...), op))
		}
	}
	rec(nil)
}

func TestServiceDFS(t *testing.T) {
	var rc struct {
		Fns [3]bool  `json:"fns"`
		Seq []string `json:"seq"`
	}
	if vx.ReplayCase("TestServiceDFS", &rc) {
		if f := runSequence(t, rc.Fns, rc.Seq); f != "" {
			t.Fatalf("replay: %s", f)
		}
		return
	}
	counter := 0
	full := vx.Pick(5, 6)
	dfs(t, [3]bool{true, true, true}, full, &counter)
	vx.Exhaustive(fmt.Sprintf("one service with all three functions: every enabled sequence of %d operations up to length %d", len(svcOps), full))
	sub := vx.Pick(4, 5)
	for mask := 0; mask < 7; mask++ {
		dfs(t, [3]bool{mask&1 != 0, mask&2 != 0, mask&4 != 0}, sub, &counter)
	}
	vx.Exhaustive(fmt.Sprintf("one service with each proper subset of its functions nil: every enabled sequence up to length %d", sub))
	vx.Sample("dfs_sequence", map[string]any{"functions": "start,run,stop", "seq": []string{"addListener", "start", "stop", "relStartOK", "relStopErr"}})
}

func TestServiceRapid(t *testing.T) {
	rapid.Check(t, func(rt *rapid.T) {
		mask := rapid.IntRange(0, 7).Draw(rt, "functions")
		if rapid.Bool().Draw(rt, "allFunctions") {
			mask = 7
		}
		fns := [3]bool{mask&1 != 0, mask&2 != 0, mask&4 != 0}
		n := rapid.IntRange(1, 25).Draw(rt, "len")
		var seq []string
		for i := 0; i < n; i++ {
			// constructive: draw among the ops enabled after the prefix
			var en []string
			for _, op := range svcOps {
				if enabledSeq(fns, append(append([]string{}, seq...), op)) {
					en = append(en, op)
				}
			}
			seq = append(seq, rapid.SampledFrom(en).Draw(rt, "op"))
		}
		vx.Eval(1)
		if nontrivialSeq(fns, seq) {
			vx.NonTrivial(vx.FP(fns, strings.Join(seq, ",")))
		}
		if vx.WantSample("random_sequence") && len(seq) >= 6 && len(seq) <= 10 {
			vx.Sample("random_sequence", map[string]any{"functions_present": fns, "seq": seq})
		}
		if f := runSequence(t, fns, seq); f != "" {
			rt.Fatalf("%s", f)
		}
	})
}

// ---------------------------------------------------------------------------------------------
// managers

type mgrRec struct {
	mu      sync.Mutex
	healthy int
	stopped int
	failed  []services.Service
	busy    bool
	overlap bool
}

func (r *mgrRec) enter() {
	r.mu.Lock()
	if r.busy {
		r.overlap = true
	}
	r.busy = true
	r.mu.Unlock()
	time.Sleep(time.Millisecond)
	r.mu.Lock()
	r.busy = false
	r.mu.Unlock()
}

type mop struct {
	Kind string
	Svc  int
}

func TestManagerRapid(t *testing.T) {
	rapid.Check(t, func(rt *rapid.T) {
		n := rapid.IntRange(1, 3).Draw(rt, "services")
		type batch []mop
		var plan []batch
		nb := rapid.IntRange(1, 14).Draw(rt, "batches")
		for i := 0; i < nb; i++ {
			var bt batch
			bl := rapid.SampledFrom([]int{1, 1, 1, 2, 3}).Draw(rt, "batchLen")
			if bl == 1 {
				bt = append(bt, mop{
					Kind: rapid.SampledFrom([]string{"mgrStart", "mgrStart", "mgrStop", "relStartOK", "relStartOK", "relStartOK", "relStartErr", "relRunOK", "relRunErr", "relStopOK", "relStopOK", "relStopErr", "svcStop", "addMgrListener", "awaitHealthy", "awaitStopped"}).Draw(rt, "kind"),
					Svc:  rapid.IntRange(0, n-1).Draw(rt, "svc")})
			} else {
				// several services act between two observations; one operation per service, so that the
				// outcome per service is determined and only cross-service notification order is open
				used := map[int]bool{}
				for j := 0; j < bl; j++ {
					o := mop{Kind: rapid.SampledFrom([]string{"relStartOK", "relStartOK", "relStartErr", "relRunOK", "relRunErr", "relStopOK", "relStopErr", "svcStop"}).Draw(rt, "kind"), Svc: rapid.IntRange(0, n-1).Draw(rt, "svc")}
					if !used[o.Svc] {
						used[o.Svc] = true
						bt = append(bt, o)
					}
				}
			}
			plan = append(plan, bt)
		}
		var failure string
		nt := false
		vx.Bubble(t, func(b *vx.B) {
			gs := make([]*gated, n)
			ms := make([]*svcModel, n)
			svcs := make([]services.Service, n)
			// services may carry names, and the same name more than once (replicas of one component): a
			// service is identified by what it is, not by what it is called
			naming := rapid.IntRange(0, 2).Draw(rt, "naming")
			for i := range gs {
				gs[i] = newGated(true, true, true)
				switch naming {
				case 1:
					gs[i].svc.WithName(fmt.Sprintf("svc-%d", i))
				case 2:
					gs[i].svc.WithName("worker")
				}
				ms[i] = newSvcModel(true, true, true)
				svcs[i] = gs[i].svc
			}
			if naming == 2 && n > 1 {
				vx.Class("managers_whose_services_share_one_name", 1)
			}
			mgr, err := services.NewManager(svcs...)
			if err != nil {
				failure = fmt.Sprintf("NewManager: %v", err)
				return
			}
			fw := services.NewFailureWatcher()
			fw.WatchManager(mgr)
			var fwMu sync.Mutex
			var fwErrs []error
			fwDone := make(chan struct{})
			// a reader that is always waiting, or one that only looks at the channel now and then (several
			// failures may then be pending at once; each must still be delivered)
			lazyReader := rapid.Bool().Draw(rt, "failureChannelReadLazily")
			drainFW := func() {
				if !lazyReader {
					return
				}
				for k := 0; k < 64; k++ {
					vx.Wait()
					select {
					case e := <-fw.Chan():
						fwMu.Lock()
						fwErrs = append(fwErrs, e)
						fwMu.Unlock()
						continue
					default:
					}
					return
				}
			}
			if lazyReader {
				close(fwDone)
				vx.Class("managers_with_lazily_read_failure_channel", 1)
			} else {
				go func() {
					defer close(fwDone)
					for e := range fw.Chan() {
						fwMu.Lock()
						fwErrs = append(fwErrs, e)
						fwMu.Unlock()
					}
				}()
			}
			// a second watcher follows a drawn subset of the services directly
			fw2 := services.NewFailureWatcher()
			watched := map[int]bool{}
			for i := range svcs {
				if rapid.Bool().Draw(rt, "watchedDirectly") {
					watched[i] = true
					fw2.WatchService(svcs[i])
				}
			}
			var fw2Errs []error
			fw2Done := make(chan struct{})
			go func() {
				defer close(fw2Done)
				for e := range fw2.Chan() {
					fwMu.Lock()
					fw2Errs = append(fw2Errs, e)
					fwMu.Unlock()
				}
			}()
			var recs []*mgrRec
			var mws []*waiter
			everAllRunning := false
			b.Cleanup(func() {
				defer func() { settle(); fw2.Close(); <-fw2Done }()
				for _, w := range mws {
					w.cancel()
				}
				mgr.StopAsync()
				for i := 0; i < 4; i++ {
					settle()
					for _, g := range gs {
						g.releaseAll()
					}
					drainFW()
				}
				settle()
				drainFW()
				fw.Close()
				<-fwDone
			})
			fail := func(f string, a ...any) {
				if failure == "" {
					failure = fmt.Sprintf("services=%d plan=%v: ", n, plan) + fmt.Sprintf(f, a...)
				}
			}
			for bi, bt := range plan {
				for _, o := range bt {
					switch o.Kind {
					case "mgrStart":
						anyNotNew := false
						for _, m := range ms {
							if m.state != "New" {
								anyNotNew = true
							}
						}
						err := mgr.StartAsync(context.Background())
						if anyNotNew != (err != nil) {
							fail("batch %d: Manager.StartAsync returned %v (some service not New: %v)", bi, err, anyNotNew)
						}
						// services are started in order until the first that is not New
						for _, m := range ms {
							if m.state != "New" {
								break
							}
							m.apply("start")
						}
					case "mgrStop":
						mgr.StopAsync()
						for _, m := range ms {
							m.apply("stop")
						}
					case "svcStop":
						svcs[o.Svc].StopAsync()
						ms[o.Svc].apply("stop")
						if n >= 2 {
							nt = true
						}
					case "relStartOK", "relStartErr", "relRunOK", "relRunErr", "relStopOK", "relStopErr":
						name := strings.ToLower(strings.TrimSuffix(strings.TrimSuffix(strings.TrimPrefix(o.Kind, "rel"), "OK"), "Err"))
						if ms[o.Svc].parked != name {
							continue // not enabled: skip (constructed plans would starve batches)
						}
						// the function may not have been entered yet if its predecessor was released in this batch
						vx.Wait()
						var err error
						if strings.HasSuffix(o.Kind, "Err") {
							err = errByName[name+"-err"]
							if n >= 2 {
								nt = true
							}
						}
						if !gs[o.Svc].release(name, err) {
							fail("batch %d: model says service %d executes %s, it has not entered it", bi, o.Svc, name)
							return
						}
						ms[o.Svc].apply(o.Kind)
					case "addMgrListener":
						r := &mgrRec{}
						recs = append(recs, r)
						mgr.AddListener(services.NewManagerListener(
							func() { r.enter(); r.mu.Lock(); r.healthy++; r.mu.Unlock() },
							func() { r.enter(); r.mu.Lock(); r.stopped++; r.mu.Unlock() },
							func(s services.Service) { r.enter(); r.mu.Lock(); r.failed = append(r.failed, s); r.mu.Unlock() }))
					case "awaitHealthy", "awaitStopped":
						wctx, wcancel := context.WithCancel(context.Background())
						w := &waiter{kind: o.Kind, cancel: wcancel}
						mws = append(mws, w)
						go func() {
							var err error
							if w.kind == "awaitHealthy" {
								err = mgr.AwaitHealthy(wctx)
							} else {
								err = mgr.AwaitStopped(wctx)
							}
							w.mu.Lock()
							w.returned, w.err = true, err
							w.mu.Unlock()
						}()
					}
				}
				settle()
				// ---- observations
				allRunning, allTerminal, anyGone := true, true, false
				var failedSvcs []int
				for i, m := range ms {
					if got := svcs[i].State().String(); got != m.state {
						fail("batch %d: service %d state %s, model %s", bi, i, got, m.state)
					}
					if m.state != "Running" {
						allRunning = false
					}
					if !m.terminal() {
						allTerminal = false
					}
					if m.state == "Stopping" || m.terminal() {
						anyGone = true
					}
					if m.state == "Failed" {
						failedSvcs = append(failedSvcs, i)
					}
				}
				if len(bt) == 1 && allRunning {
					everAllRunning = true
				}
				if mgr.IsHealthy() != allRunning {
					fail("batch %d: IsHealthy=%v but all services running=%v (states %v)", bi, mgr.IsHealthy(), allRunning, statesOf(ms))
				}
				if mgr.IsStopped() != allTerminal {
					fail("batch %d: IsStopped=%v but all services terminal=%v (states %v)", bi, mgr.IsStopped(), allTerminal, statesOf(ms))
				}
				by := mgr.ServicesByState()
				for i, m := range ms {
					found := false
					for st, ss := range by {
						for _, s := range ss {
							if s == svcs[i] {
								if st.String() != m.state {
									fail("batch %d: ServicesByState lists service %d under %v, model %s", bi, i, st, m.state)
								}
								found = true
							}
						}
					}
					if !found {
						fail("batch %d: service %d missing from ServicesByState", bi, i)
					}
				}
				drainFW()
				fwMu.Lock()
				nfw := len(fwErrs)
				for _, e := range fwErrs {
					ok := false
					for _, fi := range failedSvcs {
						if errors.Is(e, errByName[ms[fi].failure]) {
							ok = true
						}
					}
					if !ok {
						fail("batch %d: failure watcher reported %v, which is no failed service's cause", bi, e)
					}
				}
				fwMu.Unlock()
				if nfw != len(failedSvcs) {
					fail("batch %d: failure watcher delivered %d failures, %d services failed", bi, nfw, len(failedSvcs))
				}
				vx.Wait()
				fwMu.Lock()
				wantDirect := 0
				for _, fi := range failedSvcs {
					if watched[fi] {
						wantDirect++
					}
				}
				for _, e := range fw2Errs {
					ok := false
					for _, fi := range failedSvcs {
						if watched[fi] && errors.Is(e, errByName[ms[fi].failure]) {
							ok = true
						}
					}
					if !ok {
						fail("batch %d: the watcher of services %v reported %v, which is no watched failed service's cause", bi, watched, e)
					}
				}
				if len(fw2Errs) != wantDirect {
					fail("batch %d: the watcher of services %v delivered %d failures, %d watched services failed", bi, watched, len(fw2Errs), wantDirect)
				}
				fwMu.Unlock()
				for ri, r := range recs {
					r.mu.Lock()
					h, s, f, ov := r.healthy, r.stopped, append([]services.Service{}, r.failed...), r.overlap
					r.mu.Unlock()
					if ov {
						fail("batch %d: manager listener %d callbacks overlapped", bi, ri)
					}
					if h > 1 || s > 1 {
						fail("batch %d: manager listener %d got Healthy %d times, Stopped %d times", bi, ri, h, s)
					}
					if s == 1 && !allTerminal {
						fail("batch %d: manager listener %d got Stopped before all services were terminal", bi, ri)
					}
					seen := map[services.Service]int{}
					for _, x := range f {
						seen[x]++
						if seen[x] > 1 {
							fail("batch %d: manager listener %d got Failure twice for one service", bi, ri)
						}
						isFailed := false
						for _, fi := range failedSvcs {
							if svcs[fi] == x {
								isFailed = true
							}
						}
						if !isFailed {
							fail("batch %d: manager listener %d got Failure for a service that has not failed", bi, ri)
						}
					}
				}
				for wi, w := range mws {
					w.mu.Lock()
					ret, err := w.returned, w.err
					w.mu.Unlock()
					if w.kind == "awaitHealthy" {
						should := allRunning || anyGone || everAllRunning
						if ret != should && len(bt) == 1 {
							fail("batch %d: AwaitHealthy waiter %d returned=%v, expected %v (states %v)", bi, wi, ret, should, statesOf(ms))
						}
						if ret && (err == nil) != mgrHealthyAtReturn(w, allRunning) && len(bt) == 1 && !w.expectReturned {
							fail("batch %d: AwaitHealthy waiter %d returned %v with states %v", bi, wi, err, statesOf(ms))
						}
						if ret {
							w.expectReturned = true
						}
					} else {
						if ret != allTerminal {
							fail("batch %d: AwaitStopped waiter %d returned=%v, all terminal=%v", bi, wi, ret, allTerminal)
						}
						if ret && err != nil {
							fail("batch %d: AwaitStopped returned %v", bi, err)
						}
					}
				}
				if failure != "" {
					return
				}
			}
		})
		vx.Eval(1)
		if nt {
			vx.NonTrivial(vx.FP("mgr", n, fmt.Sprint(plan)))
		}
		if failure != "" {
			rt.Fatalf("%s", failure)
		}
		if vx.WantSample("manager_plan") && nt && len(plan) <= 8 {
			vx.Sample("manager_plan", map[string]any{"services": n, "batches": fmt.Sprint(plan)})
		}
	})
}

func mgrHealthyAtReturn(_ *waiter, allRunning bool) bool { return allRunning }

func statesOf(ms []*svcModel) []string {
	var out []string
	for _, m := range ms {
		out = append(out, m.state)
	}
	return out
}

// TestIdleAndTimerServices: the two convenience services under the virtual clock.
func TestIdleAndTimerServices(t *testing.T) {
	vx.Bubble(t, func(b *vx.B) {
		vx.Eval(2)
		started, stopped := 0, 0
		idle := services.NewIdleService(func(context.Context) error { started++; return nil }, func(error) error { stopped++; return nil })
		if err := services.StartAndAwaitRunning(context.Background(), idle); err != nil || idle.State() != services.Running {
			t.Fatalf("idle service: %v %v", err, idle.State())
		}
		time.Sleep(time.Hour)
		vx.Wait()
		if idle.State() != services.Running {
			t.Fatalf("idle service left Running by itself: %v", idle.State())
		}
		if err := services.StopAndAwaitTerminated(context.Background(), idle); err != nil || started != 1 || stopped != 1 {
			t.Fatalf("idle service stop: %v started=%d stopped=%d", err, started, stopped)
		}
		ticks := 0
		timer := services.NewTimerService(time.Second, nil, func(context.Context) error {
			ticks++
			if ticks == 5 {
				return errors.New("tick-err")
			}
			return nil
		}, nil)
		if err := services.StartAndAwaitRunning(context.Background(), timer); err != nil {
			t.Fatalf("timer service: %v", err)
		}
		time.Sleep(3500 * time.Millisecond)
		vx.Wait()
		if ticks != 3 || timer.State() != services.Running {
			t.Fatalf("timer service: %d ticks after 3.5 s, state %v", ticks, timer.State())
		}
		time.Sleep(2 * time.Second)
		vx.Wait()
		if timer.State() != services.Failed || timer.FailureCase() == nil || timer.FailureCase().Error() != "tick-err" || ticks != 5 {
			t.Fatalf("timer service after failing iteration: state %v cause %v ticks %d", timer.State(), timer.FailureCase(), ticks)
		}
	})
}

// TestTimerServiceRapid: timer services with iterations that take time; a stop may arrive between two
// ticks or in the middle of an iteration, and an iteration may fail at any moment, including while
// the service is being stopped. "When iteration returns error, service fails": the first error is the
// failure cause, the stopping function receives it, and the iterations stop.
func TestTimerServiceRapid(t *testing.T) {
	rapid.Check(t, func(rt *rapid.T) {
		iterTakes := time.Duration(rapid.SampledFrom([]int{0, 300, 1500}).Draw(rt, "iterationTakesMs")) * time.Millisecond
		failAt := rapid.IntRange(0, 6).Draw(rt, "failingIteration") // 0 = none
		stopAfter := time.Duration(rapid.SampledFrom([]int{500, 1000, 1100, 1200, 2300, 3100, 5000, 9000}).Draw(rt, "stopAfterMs")) * time.Millisecond
		stopErr := rapid.Bool().Draw(rt, "stoppingFunctionFails")
		var failure string
		vx.Bubble(t, func(b *vx.B) {
			iterations := 0
			iterErr := errors.New("iteration failed")
			stopFailed := errors.New("stopping failed")
			var gotInStop error
			stopCalls := 0
			svc := services.NewTimerService(time.Second, nil, func(context.Context) error {
				iterations++
				n := iterations
				time.Sleep(iterTakes) // does not watch its context: it finishes what it began
				if n == failAt {
					return iterErr
				}
				return nil
			}, func(e error) error {
				stopCalls++
				gotInStop = e
				if stopErr {
					return stopFailed
				}
				return nil
			})
			if err := services.StartAndAwaitRunning(context.Background(), svc); err != nil {
				failure = fmt.Sprintf("start: %v", err)
				return
			}
			time.Sleep(stopAfter)
			svc.StopAsync()
			time.Sleep(30 * time.Second)
			vx.Wait()
			atEnd := iterations
			time.Sleep(10 * time.Second)
			vx.Wait()
			if iterations != atEnd {
				failure = fmt.Sprintf("iterations went on after the service ended: %d then %d", atEnd, iterations)
				return
			}
			failedIteration := failAt > 0 && iterations >= failAt
			vx.Eval(1)
			if failedIteration {
				vx.NonTrivial(vx.FP("timer", iterTakes, failAt, stopAfter, stopErr))
			}
			if failedIteration && iterations != failAt {
				failure = fmt.Sprintf("iteration %d failed but %d iterations ran", failAt, iterations)
				return
			}
			if stopCalls != 1 {
				failure = fmt.Sprintf("the stopping function ran %d times", stopCalls)
				return
			}
			switch {
			case failedIteration:
				if svc.State() != services.Failed || !errors.Is(svc.FailureCase(), iterErr) {
					failure = fmt.Sprintf("iteration %d returned an error (stop requested after %v, an iteration takes %v) but the service is %v with failure cause %v", failAt, stopAfter, iterTakes, svc.State(), svc.FailureCase())
					return
				}
				if !errors.Is(gotInStop, iterErr) {
					failure = fmt.Sprintf("the stopping function was handed %v, the failed iteration returned %v", gotInStop, iterErr)
					return
				}
			case stopErr:
				if svc.State() != services.Failed || !errors.Is(svc.FailureCase(), stopFailed) {
					failure = fmt.Sprintf("the stopping function failed but the service is %v with failure cause %v", svc.State(), svc.FailureCase())
				}
			default:
				if svc.State() != services.Terminated || svc.FailureCase() != nil {
					failure = fmt.Sprintf("nothing failed but the service is %v with failure cause %v", svc.State(), svc.FailureCase())
				}
			}
		})
		if failure != "" {
			rt.Fatalf("%s", failure)
		}
	})
}
