// Package c20: tenant identifiers are validated, normalised and propagated unchanged.
package c20

import (
	"context"
	"fmt"
	"net/http"
	"net/http/httptest"
	"sort"
	"strings"
	"testing"

	"google.golang.org/grpc"
	"google.golang.org/grpc/metadata"
	"pgregory.net/rapid"

	"github.com/grafana/dskit/middleware"
	"github.com/grafana/dskit/tenant"
	"github.com/grafana/dskit/user"

	"verifharness/internal/vx"
)

func TestMain(m *testing.M) {
	vx.Rule("an org-id string is non-trivial when it contains a separator or invalid byte next to a valid character, or is a list with duplicates or metadata; distinct = distinct string")
	vx.Assume("hops are in-process: http.Header and gRPC metadata maps as the client/server interceptors see them (no HTTP/2 wire encoding)")
	vx.Main(m)
}

// validRef: the documented rule, written independently of tenant.ValidTenantID.
func validRef(s string) bool {
	if len(s) > 150 || s == "." || s == ".." {
		return false
	}
	for i := 0; i < len(s); i++ {
		c := s[i]
		switch {
		case c >= 'a' && c <= 'z', c >= 'A' && c <= 'Z', c >= '0' && c <= '9':
		case c == '!' || c == '-' || c == '_' || c == '.' || c == '*' || c == '\'' || c == '(' || c == ')':
		default:
			return false
		}
	}
	return true
}

func stripMeta(part string) string {
	if i := strings.IndexByte(part, ':'); i >= 0 {
		return part[:i]
	}
	return part
}

func nontrivial(org string) bool {
	hasValid, hasOther := false, false
	for i := 0; i < len(org); i++ {
		if validRef(string(org[i])) {
			hasValid = true
		} else {
			hasOther = true
		}
	}
	return hasValid && hasOther
}

// checkOrg checks every resolver entry point on one org-id string.
func checkOrg(org string) error {
	ctx := user.InjectOrgID(context.Background(), org)
	single, errS := tenant.TenantID(ctx)
	multi, errM := tenant.TenantIDs(ctx)
	multi2, errM2 := tenant.TenantIDsFromOrgID(org)
	rs, errRS := tenant.NewMultiResolver().TenantID(ctx)
	rm, errRM := tenant.NewMultiResolver().TenantIDs(ctx)

	parts := strings.Split(org, "|")
	set := map[string]bool{}
	allValid := true
	for _, p := range parts {
		id := stripMeta(p)
		if tenant.TrimMetadata(p) != id {
			return fmt.Errorf("TrimMetadata(%q) = %q, want %q", p, tenant.TrimMetadata(p), id)
		}
		if !validRef(id) {
			allValid = false
		}
		if (tenant.ValidTenantID(id) == nil) != validRef(id) {
			return fmt.Errorf("ValidTenantID(%q) = %v, independent validator says valid=%v", id, tenant.ValidTenantID(id), validRef(id))
		}
		set[id] = true
	}
	var want []string
	for id := range set {
		want = append(want, id)
	}
	sort.Strings(want)

	if allValid != (errM == nil) {
		return fmt.Errorf("TenantIDs(%q): err=%v but all parts valid=%v", org, errM, allValid)
	}
	if (errM == nil) != (errM2 == nil) || (errM == nil) != (errRM == nil) || fmt.Sprint(multi) != fmt.Sprint(multi2) || fmt.Sprint(multi) != fmt.Sprint(rm) {
		return fmt.Errorf("TenantIDs entry points disagree on %q: %q/%v %q/%v %q/%v", org, multi, errM, multi2, errM2, rm, errRM)
	}
	if errM == nil {
		if strings.Join(multi, "\x01") != strings.Join(want, "\x01") {
			return fmt.Errorf("TenantIDs(%q) = %q, want the sorted duplicate-free list %q", org, multi, want)
		}
		for _, id := range multi {
			if !validRef(id) || strings.ContainsAny(id, "/|:") {
				return fmt.Errorf("TenantIDs(%q) returned unsafe id %q", org, id)
			}
		}
	}
	// single succeeds iff all parts are... the first valid and all denote the same tenant
	wantSingleOK := validRef(stripMeta(parts[0])) && len(set) == 1
	if (errS == nil) != wantSingleOK {
		return fmt.Errorf("TenantID(%q) = (%q, %v), want success=%v", org, single, errS, wantSingleOK)
	}
	if (errS == nil) != (errM == nil && len(multi) == 1) {
		return fmt.Errorf("single/multi disagree on %q: TenantID=(%q,%v) TenantIDs=(%q,%v)", org, single, errS, multi, errM)
	}
	if (errS == nil) != (errRS == nil) || single != rs {
		return fmt.Errorf("resolver and function disagree on %q", org)
	}
	if errS == nil {
		if single != multi[0] || !validRef(single) || single != stripMeta(parts[0]) {
			return fmt.Errorf("TenantID(%q) = %q, TenantIDs = %q", org, single, multi)
		}
	} else if errM == nil && errS != user.ErrTooManyOrgIDs {
		return fmt.Errorf("TenantID(%q): all ids valid but several tenants: want ErrTooManyOrgIDs, got %v", org, errS)
	}
	// metadata-aware single resolution: success => same tenant as TenantID, valid id
	pid, md, errP := tenant.ParseWithMetadata(org)
	if errP == nil {
		if errS != nil || pid != single || !validRef(pid) {
			return fmt.Errorf("ParseWithMetadata(%q) = %q but TenantID = (%q, %v)", org, pid, single, errS)
		}
		first := parts[0]
		if enc := md.Encode(); enc != first[len(stripMeta(first)):] {
			return fmt.Errorf("ParseWithMetadata(%q): metadata %q is not the suffix of %q", org, enc, first)
		}
	}
	// HTTP extraction
	req := httptest.NewRequest("GET", "http://x/", nil)
	req.Header.Set(user.OrgIDHeaderName, org)
	hid, hctx, errH := tenant.ExtractTenantIDFromHTTPRequest(req)
	if org == "" {
		if errH != user.ErrNoOrgID {
			return fmt.Errorf("empty header: want ErrNoOrgID, got (%q,%v)", hid, errH)
		}
	} else {
		if (errH == nil) != (errS == nil) || hid != single {
			return fmt.Errorf("ExtractTenantIDFromHTTPRequest(%q) = (%q,%v), TenantID = (%q,%v)", org, hid, errH, single, errS)
		}
		if errH == nil {
			if got, _ := user.ExtractOrgID(hctx); got != org {
				return fmt.Errorf("context org id %q != header %q", got, org)
			}
		}
	}
	return nil
}

var shortAlphabet = []byte{'a', 'b', '0', 'A', '|', ':', '/', '.', '=', 0, 0xff, '-', '_', ' '}

func TestShortStringsExhaustive(t *testing.T) {
	maxLen := vx.Pick(3, 4)
	var rec func(prefix []byte)
	n := 0
	rec = func(prefix []byte) {
		n++
		if vx.Mine(n) {
			s := string(prefix)
			vx.Eval(1)
			if nontrivial(s) {
				vx.NonTrivial(vx.FP("short", s))
			}
			if err := checkOrg(s); err != nil {
				vx.Failf(t, "TestShortStringsExhaustive", map[string]string{"org": fmt.Sprintf("%q", s)}, "%v", err)
			}
		}
		if len(prefix) == maxLen {
			return
		}
		for _, c := range shortAlphabet {
			rec(append(append([]byte{}, prefix...), c))
		}
	}
	rec(nil)
	vx.Exhaustive(fmt.Sprintf("every byte string of length <= %d over the 14-byte alphabet %q", maxLen, shortAlphabet))
	vx.Sample("short_string", fmt.Sprintf("%q", "a|:"))
}

func genOrg(rt *rapid.T) string {
	piece := rapid.OneOf(
		rapid.StringMatching(`[a-zA-Z0-9!_.*'()-]{0,6}`),
		rapid.SampledFrom([]string{"|", ":", "/", ".", "..", "=", "\x00", "\xff", "\x80", "a", "b", "k=v", ":k=v", ":a=1:b=2", "|a", "a|a", " ", "\t", "\n", "%", "\\", "é", "a:", ":|"}),
		rapid.StringN(0, 3, 6),
	)
	org := strings.Join(rapid.SliceOfN(piece, 0, 6).Draw(rt, "pieces"), "")
	switch rapid.IntRange(0, 20).Draw(rt, "long") {
	case 0:
		org += strings.Repeat("x", rapid.IntRange(140, 160).Draw(rt, "len"))
	case 1:
		// exactly at the limit, with a list tail
		org = strings.Repeat("y", rapid.IntRange(148, 152).Draw(rt, "len2")) + rapid.SampledFrom([]string{"", "|a", ":k=v", "|" + strings.Repeat("y", 150)}).Draw(rt, "tail")
	}
	return org
}

func TestGrammarRapid(t *testing.T) {
	rapid.Check(t, func(rt *rapid.T) {
		org := genOrg(rt)
		vx.Eval(1)
		if nontrivial(org) {
			vx.NonTrivial(vx.FP("g", org))
		}
		if vx.WantSample("grammar_string") && len(org) > 3 && len(org) < 30 {
			vx.Sample("grammar_string", fmt.Sprintf("%q", org))
		}
		if err := checkOrg(org); err != nil {
			rt.Fatalf("%v", err)
		}
	})
}

// TestListsRapid: lists of 0..5 valid/invalid ids with and without metadata, with duplicates.
func TestListsRapid(t *testing.T) {
	rapid.Check(t, func(rt *rapid.T) {
		pool := rapid.SliceOfN(rapid.OneOf(
			rapid.StringMatching(`[a-z0-9_.-]{1,5}`),
			rapid.SampledFrom([]string{"t1", "t2", "T1", ".", "..", "a/b", "a b", ""}),
		), 1, 4).Draw(rt, "pool")
		n := rapid.IntRange(0, 5).Draw(rt, "n")
		var parts []string
		ids := map[string]bool{}
		valid := true
		meta := false
		for i := 0; i < n; i++ {
			id := rapid.SampledFrom(pool).Draw(rt, "id")
			p := id
			switch rapid.IntRange(0, 3).Draw(rt, "meta") {
			case 1:
				p += ":k=v"
				meta = true
			case 2:
				p += rapid.SampledFrom([]string{":", ":x", ":a=1:b=2", ":b=2:a=1", ":K=V|"}).Draw(rt, "badmeta")
				meta = true
			}
			parts = append(parts, p)
		}
		org := strings.Join(parts, "|")
		for _, p := range strings.Split(org, "|") {
			id := stripMeta(p)
			ids[id] = true
			if !validRef(id) {
				valid = false
			}
		}
		vx.Eval(1)
		if n >= 2 && (meta || len(ids) < n) {
			vx.NonTrivial(vx.FP("list", org))
		}
		if vx.WantSample("id_list") && n >= 2 {
			vx.Sample("id_list", fmt.Sprintf("%q", org))
		}
		if err := checkOrg(org); err != nil {
			rt.Fatalf("%v", err)
		}
		got, err := tenant.TenantIDsFromOrgID(org)
		if valid != (err == nil) {
			rt.Fatalf("TenantIDsFromOrgID(%q) err=%v, want valid=%v", org, err, valid)
		}
		if err == nil && len(got) != len(ids) {
			rt.Fatalf("TenantIDsFromOrgID(%q) = %q, want %d distinct tenants", org, got, len(ids))
		}
		// NormalizeTenantIDs / JoinTenantIDs round trip
		if err == nil {
			again, err2 := tenant.TenantIDsFromOrgID(tenant.JoinTenantIDs(got))
			if err2 != nil || fmt.Sprint(again) != fmt.Sprint(got) {
				rt.Fatalf("join/resolve round trip of %q: %q, %v", got, again, err2)
			}
		}
	})
}

// ---------------------------------------------------------------------------------------------
// hop chains

type hop int

const (
	hopHTTP hop = iota
	hopHTTPMiddleware
	hopGRPC
	hopGRPCInterceptors
)

// runHop carries the org id of ctx over one hop and returns the receiving side's context.
func runHop(h hop, ctx context.Context) (context.Context, error) {
	return runHopOn(h, ctx, context.Background())
}

// runHopOn: the receiving side starts from serverBase (which may already carry an org id of its own,
// e.g. an in-process call or stacked interceptors): what arrives must still be the sender's id.
func runHopOn(h hop, ctx context.Context, serverBase context.Context) (context.Context, error) {
	switch h {
	case hopHTTP:
		req := httptest.NewRequest("GET", "http://x/", nil)
		if err := user.InjectOrgIDIntoHTTPRequest(ctx, req); err != nil {
			return nil, err
		}
		_, out, err := user.ExtractOrgIDFromHTTPRequest(req.WithContext(serverBase))
		return out, err
	case hopHTTPMiddleware:
		req := httptest.NewRequest("GET", "http://x/", nil)
		if err := user.InjectOrgIDIntoHTTPRequest(ctx, req); err != nil {
			return nil, err
		}
		var out context.Context
		rec := httptest.NewRecorder()
		middleware.AuthenticateUser.Wrap(http.HandlerFunc(func(_ http.ResponseWriter, r *http.Request) { out = r.Context() })).ServeHTTP(rec, req.WithContext(serverBase))
		if out == nil {
			if rec.Code != http.StatusUnauthorized {
				return nil, fmt.Errorf("handler not called but status %d", rec.Code)
			}
			return nil, user.ErrNoOrgID
		}
		return out, nil
	case hopGRPC:
		octx, err := user.InjectIntoGRPCRequest(ctx)
		if err != nil {
			return nil, err
		}
		md, _ := metadata.FromOutgoingContext(octx)
		_, out, err := user.ExtractFromGRPCRequest(metadata.NewIncomingContext(serverBase, md.Copy()))
		return out, err
	default:
		var out context.Context
		var herr error
		invoker := func(ictx context.Context, _ string, _, _ interface{}, _ *grpc.ClientConn, _ ...grpc.CallOption) error {
			md, _ := metadata.FromOutgoingContext(ictx)
			_, herr = middleware.ServerUserHeaderInterceptor(metadata.NewIncomingContext(serverBase, md.Copy()), nil, nil,
				func(sctx context.Context, _ interface{}) (interface{}, error) { out = sctx; return nil, nil })
			return herr
		}
		if err := middleware.ClientUserHeaderInterceptor(ctx, "/m", nil, nil, nil, invoker); err != nil {
			return nil, err
		}
		return out, nil
	}
}

func TestHopChainRapid(t *testing.T) {
	rapid.Check(t, func(rt *rapid.T) {
		org := genOrg(rt)
		hops := rapid.SliceOfN(rapid.IntRange(0, 3), 0, 8).Draw(rt, "hops")
		ctx := user.InjectOrgID(context.Background(), org)
		vx.Eval(1)
		if len(hops) >= 2 && nontrivial(org) {
			vx.NonTrivial(vx.FP("chain", org, fmt.Sprint(hops)))
		}
		if vx.WantSample("hop_chain") && len(hops) >= 3 && len(org) < 20 {
			vx.Sample("hop_chain", map[string]any{"org": fmt.Sprintf("%q", org), "hops": hops})
		}
		staleServer := rapid.Bool().Draw(rt, "serverContextCarriesAnotherOrg")
		for i, h := range hops {
			base := context.Background()
			if staleServer {
				base = user.InjectOrgID(base, "tenant-earlier")
			}
			out, err := runHopOn(hop(h), ctx, base)
			if org == "" && (hop(h) == hopHTTP || hop(h) == hopHTTPMiddleware) {
				if err != user.ErrNoOrgID {
					rt.Fatalf("hop %d (%d): an empty org id over HTTP must be rejected with ErrNoOrgID, got %v", i, h, err)
				}
				return
			}
			if err != nil {
				rt.Fatalf("hop %d (%d) of %q failed: %v", i, h, org, err)
			}
			got, err := user.ExtractOrgID(out)
			if err != nil || got != org {
				rt.Fatalf("hop %d (%d): org id %q arrived as %q (%v)", i, h, org, got, err)
			}
			ctx = out
		}
	})
}

// TestNoOrgIDRejected: a request without an org id is rejected, never given a default; conflicting
// pre-existing headers give the documented errors.
func TestNoOrgIDRejected(t *testing.T) {
	bg := context.Background()
	vx.Eval(8)
	if _, err := tenant.TenantID(bg); err != user.ErrNoOrgID {
		t.Fatalf("TenantID without org id: %v", err)
	}
	if _, err := tenant.TenantIDs(bg); err != user.ErrNoOrgID {
		t.Fatalf("TenantIDs without org id: %v", err)
	}
	if _, _, err := tenant.ExtractWithMetadata(bg); err != user.ErrNoOrgID {
		t.Fatalf("ExtractWithMetadata without org id: %v", err)
	}
	req := httptest.NewRequest("GET", "http://x/", nil)
	if err := user.InjectOrgIDIntoHTTPRequest(bg, req); err != user.ErrNoOrgID {
		t.Fatalf("inject without org id: %v", err)
	}
	if id, _, err := user.ExtractOrgIDFromHTTPRequest(req); err != user.ErrNoOrgID || id != "" {
		t.Fatalf("extract without header: %q %v", id, err)
	}
	rec := httptest.NewRecorder()
	called := false
	middleware.AuthenticateUser.Wrap(http.HandlerFunc(func(http.ResponseWriter, *http.Request) { called = true })).ServeHTTP(rec, req)
	if called || rec.Code != http.StatusUnauthorized {
		t.Fatalf("middleware let a request without org id through (called=%v status=%d)", called, rec.Code)
	}
	if _, err := user.InjectIntoGRPCRequest(bg); err != user.ErrNoOrgID {
		t.Fatalf("grpc inject without org id: %v", err)
	}
	for _, base := range []context.Context{bg, user.InjectOrgID(bg, "tenant-earlier")} {
		for _, md := range []metadata.MD{nil, metadata.Pairs("x-scope-orgid", "a", "x-scope-orgid", "b"), metadata.Pairs("other", "a")} {
			vx.Eval(2)
			if id, _, err := user.ExtractFromGRPCRequest(metadata.NewIncomingContext(base, md)); err != user.ErrNoOrgID || id != "" {
				t.Fatalf("grpc extract with metadata %v (receiving context carries an org id: %v): %q %v", md, base != bg, id, err)
			}
			if _, err := middleware.ServerUserHeaderInterceptor(metadata.NewIncomingContext(base, md), nil, nil, func(context.Context, interface{}) (interface{}, error) {
				t.Fatalf("handler called without org id")
				return nil, nil
			}); err != user.ErrNoOrgID {
				t.Fatalf("server interceptor with metadata %v (receiving context carries an org id: %v): %v", md, base != bg, err)
			}
		}
		// HTTP: a request without the header, whose context already carries an org id
		reqNo := httptest.NewRequest("GET", "http://x/", nil).WithContext(base)
		if id, _, err := user.ExtractOrgIDFromHTTPRequest(reqNo); err != user.ErrNoOrgID || id != "" {
			t.Fatalf("http extract without header (receiving context carries an org id: %v): %q %v", base != bg, id, err)
		}
	}
	// conflicting pre-existing values
	req2 := httptest.NewRequest("GET", "http://x/", nil)
	req2.Header.Set(user.OrgIDHeaderName, "other")
	if err := user.InjectOrgIDIntoHTTPRequest(user.InjectOrgID(bg, "mine"), req2); err != user.ErrDifferentOrgIDPresent {
		t.Fatalf("conflicting header: %v", err)
	}
	if req2.Header.Get(user.OrgIDHeaderName) != "other" {
		t.Fatalf("conflicting header overwritten")
	}
	octx := metadata.NewOutgoingContext(user.InjectOrgID(bg, "mine"), metadata.Pairs("x-scope-orgid", "other"))
	if _, err := user.InjectIntoGRPCRequest(octx); err != user.ErrDifferentOrgIDPresent {
		t.Fatalf("conflicting grpc metadata: %v", err)
	}
	octx = metadata.NewOutgoingContext(user.InjectOrgID(bg, "mine"), metadata.Pairs("x-scope-orgid", "mine", "x-scope-orgid", "mine"))
	if _, err := user.InjectIntoGRPCRequest(octx); err != user.ErrTooManyOrgIDs {
		t.Fatalf("two grpc metadata values: %v", err)
	}
}

// FuzzTenant: coverage-guided byte strings against the same oracle (thorough tier).
func FuzzTenant(f *testing.F) {
	for _, s := range []string{"", "a", "a|b", "a|a", "a:k=v", "a:k=v|a", "a:k=v|b:k=v", ".", "..", "a/b", "a|", "|", ":", "\x00", "\xff", strings.Repeat("x", 150), strings.Repeat("x", 151), "tenant-1|tenant-2", "t:a=1:b=2", "t:b=2:a=1"} {
		f.Add(s)
	}
	f.Fuzz(func(t *testing.T, org string) {
		if err := checkOrg(org); err != nil {
			t.Fatalf("%v", err)
		}
		ctx := user.InjectOrgID(context.Background(), org)
		for _, h := range []hop{hopGRPC, hopGRPCInterceptors, hopHTTP, hopHTTPMiddleware} {
			out, err := runHop(h, ctx)
			if org == "" && (h == hopHTTP || h == hopHTTPMiddleware) {
				continue
			}
			if err != nil {
				t.Fatalf("hop %d of %q: %v", h, org, err)
			}
			if got, _ := user.ExtractOrgID(out); got != org {
				t.Fatalf("hop %d: %q arrived as %q", h, org, got)
			}
		}
	})
}

// TestPreexistingIDsRapid: the outgoing request already carries an org id (a proxy forwarding an
// inbound request, a reused request object). Either it is exactly the context's id and the request
// goes out with exactly that id, or the injection is refused and the carried id is left alone: what
// arrives is never an id other than the sender's, however similar (case, metadata suffix, spacing).
func TestPreexistingIDsRapid(t *testing.T) {
	variantOf := func(rt *rapid.T, org string) string {
		switch rapid.IntRange(0, 6).Draw(rt, "preexistingKind") {
		case 0:
			return org
		case 1:
			return strings.ToUpper(org)
		case 2:
			return strings.ToLower(org)
		case 3:
			if org == "" {
				return "x"
			}
			b := []byte(org)
			i := rapid.IntRange(0, len(b)-1).Draw(rt, "flipCaseAt")
			b[i] ^= 0x20
			return string(b)
		case 4:
			return org + ":k=v"
		case 5:
			return " " + org
		default:
			return genOrg(rt)
		}
	}
	rapid.Check(t, func(rt *rapid.T) {
		org := rapid.OneOf(rapid.StringMatching(`[a-zA-Z][a-zA-Z0-9_-]{0,8}(:[a-z]=[a-zA-Z0-9]{1,3})?`), rapid.Custom(genOrg)).Draw(rt, "org")
		if org == "" {
			org = "t"
		}
		pre := variantOf(rt, org)
		ctx := user.InjectOrgID(context.Background(), org)
		vx.Eval(2)
		if pre != org && strings.EqualFold(pre, org) {
			vx.NonTrivial(vx.FP("pre-case", org, pre))
			vx.Class("preexisting_id_differs_in_case_only", 1)
		} else if pre != org {
			vx.NonTrivial(vx.FP("pre", org, pre))
		}
		// HTTP
		req := httptest.NewRequest("GET", "http://x/", nil)
		req.Header.Set(user.OrgIDHeaderName, pre)
		err := user.InjectOrgIDIntoHTTPRequest(ctx, req)
		got := req.Header.Get(user.OrgIDHeaderName)
		switch {
		case pre == org || pre == "":
			if err != nil || got != org {
				rt.Fatalf("HTTP: context id %q, request already carrying %q: err=%v, header %q; want the request to go out with the context's id", org, pre, err, got)
			}
		case err == nil:
			rt.Fatalf("HTTP: context id %q, request already carrying the different id %q: accepted (header now %q); want ErrDifferentOrgIDPresent", org, pre, got)
		case err != user.ErrDifferentOrgIDPresent || got != pre:
			rt.Fatalf("HTTP: context id %q, request already carrying %q: err=%v header=%q; want ErrDifferentOrgIDPresent and the header left alone", org, pre, err, got)
		}
		// gRPC
		octx := metadata.NewOutgoingContext(ctx, metadata.Pairs("x-scope-orgid", pre))
		out, err := user.InjectIntoGRPCRequest(octx)
		if pre == org {
			md, _ := metadata.FromOutgoingContext(out)
			if err != nil || len(md.Get("x-scope-orgid")) != 1 || md.Get("x-scope-orgid")[0] != org {
				rt.Fatalf("gRPC: context id %q, metadata already carrying it: err=%v metadata=%v", org, err, md.Get("x-scope-orgid"))
			}
		} else if err != user.ErrDifferentOrgIDPresent {
			md, _ := metadata.FromOutgoingContext(out)
			rt.Fatalf("gRPC: context id %q, metadata already carrying the different id %q: err=%v (metadata now %v); want ErrDifferentOrgIDPresent", org, pre, err, md.Get("x-scope-orgid"))
		}
	})
}

// TestContextIsolationRapid: giving a context an org id yields a new context; contexts derived earlier
// from the same parent (a handler fanning out one request per tenant), and the parent itself, keep
// theirs - through the direct call and through every receiving side, which calls it too.
func TestContextIsolationRapid(t *testing.T) {
	rapid.Check(t, func(rt *rapid.T) {
		ids := rapid.SliceOfNDistinct(rapid.StringMatching(`[a-z][a-z0-9-]{0,6}`), 2, 5, func(s string) string { return s }).Draw(rt, "ids")
		type node struct {
			ctx  context.Context
			want string // "" = none
		}
		root := node{ctx: context.Background()}
		if rapid.Bool().Draw(rt, "rootHasID") {
			root = node{ctx: user.InjectOrgID(context.Background(), "root-tenant"), want: "root-tenant"}
		}
		nodes := []node{root}
		steps := rapid.IntRange(2, 8).Draw(rt, "derivations")
		for i := 0; i < steps; i++ {
			parent := nodes[rapid.IntRange(0, len(nodes)-1).Draw(rt, "parent")]
			id := ids[rapid.IntRange(0, len(ids)-1).Draw(rt, "id")]
			var child context.Context
			switch rapid.IntRange(0, 2).Draw(rt, "how") {
			case 0:
				child = user.InjectOrgID(parent.ctx, id)
			case 1:
				req := httptest.NewRequest("GET", "http://x/", nil).WithContext(parent.ctx)
				req.Header.Set(user.OrgIDHeaderName, id)
				_, c, err := user.ExtractOrgIDFromHTTPRequest(req)
				if err != nil {
					rt.Fatalf("extract: %v", err)
				}
				child = c
			default:
				_, c, err := user.ExtractFromGRPCRequest(metadata.NewIncomingContext(parent.ctx, metadata.Pairs("x-scope-orgid", id)))
				if err != nil {
					rt.Fatalf("extract: %v", err)
				}
				child = c
			}
			nodes = append(nodes, node{child, id})
			vx.Eval(1)
			for k, n := range nodes {
				got, err := user.ExtractOrgID(n.ctx)
				if n.want == "" {
					if err == nil {
						rt.Fatalf("after derivation %d the context %d, which never had an org id, carries %q", i, k, got)
					}
					continue
				}
				if err != nil || got != n.want {
					rt.Fatalf("after derivation %d (id %q from context %d) the context %d made for %q carries %q (%v)", i, id, k, k, n.want, got, err)
				}
			}
		}
		vx.NonTrivial(vx.FP("isolation", fmt.Sprint(ids), steps))
		// each of them arrives as itself after a hop
		for _, n := range nodes[1:] {
			out, err := runHop(hopGRPC, n.ctx)
			if err != nil {
				rt.Fatalf("hop: %v", err)
			}
			if got, _ := user.ExtractOrgID(out); got != n.want {
				rt.Fatalf("the context made for %q arrives as %q after a gRPC hop", n.want, got)
			}
		}
	})
}
