//go:build verif

// Package c04: removed entries stay removed: tombstones block resurrection and are never shown.
package c04

import (
	"fmt"
	"strings"
	"testing"
	"time"

	"pgregory.net/rapid"

	"github.com/grafana/dskit/ring"

	"verifharness/internal/gossip"
	"verifharness/internal/model"
	"verifharness/internal/vx"
)

func TestMain(m *testing.M) {
	vx.Rule("a history is non-trivial when a message (or full state) produced before a removal, carrying the removed entry alive, is delivered to a replica that already holds the tombstone (the resurrection hazard); the histogram separates same-second from later-second removals; distinct = distinct history fingerprint")
	vx.Assume("single writer per entry: registration, heartbeats and state changes are issued on the entry's home replica, removals on any replica; producers stamp with the shared virtual clock, so 'produced before the removal' implies timestamp <= removal timestamp")
	vx.Assume("a re-registration in the same second as the removal loses to the tombstone (the documented tie rule); nothing is asserted about it becoming visible")
	vx.Assume("store level: detached gossip KV nodes (hook NewDetachedKV), the harness is the network; retention 24 h except in the short-retention test (30 s), where only the direct invariants are asserted")
	vx.Main(m)
}

func report(rt *rapid.T, res *gossip.Result, kind string) {
	vx.Eval(1)
	vx.Class(kind+"_histories", 1)
	for k, v := range res.Stats {
		vx.Class(kind+"_"+k, v)
	}
	vx.Class(kind+"_resurrection_hazards", res.ResurrectionHazards)
	vx.Class(kind+"_same_second_hazards", res.SameSecondHazards)
	if res.ResurrectionHazards > 0 {
		vx.NonTrivial(vx.FP(kind, strings.Join(res.History, "\n")))
	}
	if res.Failure != "" {
		rt.Fatalf("%s\nhistory:\n%s", res.Failure, strings.Join(res.History, "\n"))
	}
	if vx.WantSample(kind+"_history") && res.ResurrectionHazards > 0 && len(res.History) <= 14 {
		vx.Sample(kind+"_history", res.History)
	}
}

// TestStoreTombstonesRapid: store level, long retention: exact last-writer-wins differential plus the direct invariants.
func TestStoreTombstonesRapid(t *testing.T) {
	rapid.Check(t, func(rt *rapid.T) {
		var res *gossip.Result
		vx.Bubble(t, func(b *vx.B) {
			res = gossip.RunHistory(rt, b, gossip.Opts{MinNodes: 2, MaxNodes: 4, MaxSteps: vx.Pick(45, 70), RemovalBias: true})
		})
		report(rt, res, "store")
	})
}

// TestStoreRetentionRapid: store level, retention 30 s, clock steps across the retention boundary.
func TestStoreRetentionRapid(t *testing.T) {
	rapid.Check(t, func(rt *rapid.T) {
		var res *gossip.Result
		vx.Bubble(t, func(b *vx.B) {
			res = gossip.RunHistory(rt, b, gossip.Opts{MinNodes: 2, MaxNodes: 3, MaxSteps: vx.Pick(40, 60), RemovalBias: true, ShortRetention: true})
		})
		report(rt, res, "retention")
	})
}

// ---------------------------------------------------------------------------------------------
// descriptor level: replicas are plain descriptors merged directly

type change struct {
	id   int
	ring *ring.Desc
	pr   *ring.PartitionRingDesc
	at   time.Time
}

func visibleR(d *ring.Desc) *ring.Desc {
	c := model.CloneDesc(d)
	c.RemoveTombstones(time.Time{})
	return c
}
func visibleP(d *ring.PartitionRingDesc) *ring.PartitionRingDesc {
	c := model.ClonePDesc(d)
	c.RemoveTombstones(time.Time{})
	return c
}

func TestDescriptorTombstonesRapid(t *testing.T) {
	rapid.Check(t, func(rt *rapid.T) {
		var failure string
		var hist []string
		hazards, sameSecond := 0, 0
		vx.Bubble(t, func(b *vx.B) {
			n := rapid.IntRange(2, 4).Draw(rt, "replicas")
			rs := make([]*ring.Desc, n)
			ps := make([]*ring.PartitionRingDesc, n)
			for i := range rs {
				rs[i], ps[i] = ring.NewDesc(), ring.NewPartitionRingDesc()
			}
			var pool []*change
			ids := []string{"a", "b", "c"}
			owners := []string{"o0", "o1"}
			fail := func(f string, a ...any) {
				if failure == "" {
					failure = fmt.Sprintf(f, a...)
				}
			}
			logf := func(f string, a ...any) {
				hist = append(hist, time.Now().Format("15:04:05.000 ")+fmt.Sprintf(f, a...))
			}
			// localCAS merges `out` (the edited visible state) into replica i and records the change
			casR := func(i int, out *ring.Desc) {
				before := model.CloneDesc(rs[i])
				ch, err := rs[i].Merge(model.CloneDesc(out), true)
				if err != nil {
					fail("merge: %v", err)
					return
				}
				want := model.JoinDesc(before, out)
				for id, in := range before.Ingesters {
					if _, ok := out.Ingesters[id]; !ok && in.State != ring.LEFT {
						in.State, in.Tokens, in.Timestamp = ring.LEFT, nil, time.Now().Unix()
						want.Ingesters[id] = in
					}
				}
				if model.CanonDescN(rs[i]) != model.CanonDescN(want) {
					fail("local update on replica %d: state %s, expected %s", i, model.CanonDescN(rs[i]), model.CanonDescN(want))
				}
				if ch != nil {
					pool = append(pool, &change{id: len(pool), ring: model.CloneDesc(ch.(*ring.Desc)), at: time.Now()})
					// a removal is reported in the change as a tombstone stamped now (forwarded like any other change)
					for id, in := range before.Ingesters {
						if _, ok := out.Ingesters[id]; !ok && in.State != ring.LEFT {
							got, ok := ch.(*ring.Desc).Ingesters[id]
							if !ok || got.State != ring.LEFT || got.Timestamp != time.Now().Unix() {
								fail("removal of %s on replica %d: the reported change carries %v, want a tombstone stamped %d", id, i, got, time.Now().Unix())
							}
						}
					}
				}
			}
			casP := func(i int, out *ring.PartitionRingDesc) {
				before := model.ClonePDesc(ps[i])
				ch, err := ps[i].Merge(model.ClonePDesc(out), true)
				if err != nil {
					fail("merge: %v", err)
					return
				}
				want := model.JoinPDesc(before, out)
				for id, pd := range before.Partitions {
					if _, ok := out.Partitions[id]; !ok && pd.State != ring.PartitionDeleted {
						pd.State, pd.StateTimestamp = ring.PartitionDeleted, time.Now().Unix()
						want.Partitions[id] = pd
					}
				}
				for id, o := range before.Owners {
					if _, ok := out.Owners[id]; !ok && o.State != ring.OwnerDeleted {
						o.State, o.UpdatedTimestamp = ring.OwnerDeleted, time.Now().Unix()
						want.Owners[id] = o
					}
				}
				if model.CanonPDescN(ps[i]) != model.CanonPDescN(want) {
					fail("local update on replica %d: state %s, expected %s", i, model.CanonPDescN(ps[i]), model.CanonPDescN(want))
				}
				if ch != nil {
					pool = append(pool, &change{id: len(pool), pr: model.ClonePDesc(ch.(*ring.PartitionRingDesc)), at: time.Now()})
				}
			}
			// receive merges a change / full state into replica i with the no-resurrection check
			receive := func(i int, what string, r *ring.Desc, p *ring.PartitionRingDesc) {
				if r != nil {
					before := model.CloneDesc(rs[i])
					var hz []string
					for id, in := range r.Ingesters {
						if cur, ok := before.Ingesters[id]; ok && cur.State == ring.LEFT && in.State != ring.LEFT && in.Timestamp <= cur.Timestamp {
							hz = append(hz, id)
							hazards++
							if in.Timestamp == cur.Timestamp {
								sameSecond++
							}
						}
					}
					ch, err := rs[i].Merge(model.CloneDesc(r), false)
					if err != nil {
						fail("%s: merge: %v", what, err)
						return
					}
					for _, id := range hz {
						if in := rs[i].Ingesters[id]; in.State != ring.LEFT {
							fail("%s: instance %s was removed on replica %d (tombstone at %d) and reappeared as %v through a message produced before the removal", what, id, i, before.Ingesters[id].Timestamp, in)
						}
					}
					want := model.JoinDesc(before, r)
					if model.CanonDescN(rs[i]) != model.CanonDescN(want) {
						fail("%s: replica %d holds %s, expected the last-writer-wins join %s", what, i, model.CanonDescN(rs[i]), model.CanonDescN(want))
					}
					if ch != nil {
						pool = append(pool, &change{id: len(pool), ring: model.CloneDesc(ch.(*ring.Desc)), at: time.Now()})
					}
				}
				if p != nil {
					before := model.ClonePDesc(ps[i])
					type hzk struct {
						part bool
						id   string
						pid  int32
					}
					var hz []hzk
					for id, pd := range p.Partitions {
						if cur, ok := before.Partitions[id]; ok && cur.State == ring.PartitionDeleted && pd.State != ring.PartitionDeleted && pd.StateTimestamp <= cur.StateTimestamp {
							hz = append(hz, hzk{part: true, pid: id})
							hazards++
						}
					}
					for id, o := range p.Owners {
						if cur, ok := before.Owners[id]; ok && cur.State == ring.OwnerDeleted && o.State != ring.OwnerDeleted && o.UpdatedTimestamp <= cur.UpdatedTimestamp {
							hz = append(hz, hzk{id: id})
							hazards++
						}
					}
					ch, err := ps[i].Merge(model.ClonePDesc(p), false)
					if err != nil {
						fail("%s: merge: %v", what, err)
						return
					}
					for _, h := range hz {
						if h.part && ps[i].Partitions[h.pid].State != ring.PartitionDeleted {
							fail("%s: partition %d was removed on replica %d and reappeared through older data", what, h.pid, i)
						}
						if !h.part && ps[i].Owners[h.id].State != ring.OwnerDeleted {
							fail("%s: owner %s was removed on replica %d and reappeared through older data", what, h.id, i)
						}
					}
					want := model.JoinPDesc(before, p)
					if model.CanonPDescN(ps[i]) != model.CanonPDescN(want) {
						fail("%s: replica %d holds %s, expected the last-writer-wins join %s", what, i, model.CanonPDescN(ps[i]), model.CanonPDescN(want))
					}
					if ch != nil {
						pool = append(pool, &change{id: len(pool), pr: model.ClonePDesc(ch.(*ring.PartitionRingDesc)), at: time.Now()})
					}
				}
			}
			kinds := []string{"heartbeat", "heartbeat", "remove", "remove", "replace", "replace", "deliver", "deliver", "deliver", "deliverOld", "deliverOld", "exchange", "step", "step", "read",
				"partition", "removePartition", "owner", "removeOwner", "lock"}
			steps := rapid.IntRange(3, vx.Pick(40, 60)).Draw(rt, "steps")
			for s := 0; s < steps && failure == ""; s++ {
				kind := kinds[vx.Mix(rapid.Uint64().Draw(rt, "op"), len(kinds))]
				i := rapid.IntRange(0, n-1).Draw(rt, "replica")
				switch kind {
				case "heartbeat": // register / heartbeat / state change by the owner on its home replica
					idx := rapid.IntRange(0, len(ids)-1).Draw(rt, "instance")
					home := idx % n
					out := visibleR(rs[home])
					cur, ok := out.Ingesters[ids[idx]]
					st := rapid.SampledFrom([]ring.InstanceState{ring.ACTIVE, ring.PENDING, ring.JOINING, ring.LEAVING}).Draw(rt, "state")
					if !ok {
						cur = ring.InstanceDesc{Id: ids[idx], Addr: ids[idx] + ":1", Tokens: []uint32{uint32(idx*10 + 1), uint32(idx*10 + 2)}, RegisteredTimestamp: time.Now().Unix()}
					}
					cur.State, cur.Timestamp = st, time.Now().Unix()
					out.Ingesters[ids[idx]] = cur
					logf("instance %s writes (state %v) on its home replica %d", ids[idx], st, home)
					casR(home, out)
				case "remove": // unregistration or operator forget, on any replica that sees the instance
					out := visibleR(rs[i])
					var vis []string
					for _, id := range ids {
						if _, ok := out.Ingesters[id]; ok {
							vis = append(vis, id)
						}
					}
					if len(vis) == 0 {
						continue
					}
					id := vis[rapid.IntRange(0, len(vis)-1).Draw(rt, "removeWhich")]
					delete(out.Ingesters, id)
					logf("instance %s removed on replica %d", id, i)
					casR(i, out)
				case "replace": // one update registers an instance and removes others
					idx := rapid.IntRange(0, len(ids)-1).Draw(rt, "instance")
					home := idx % n
					out := visibleR(rs[home])
					mask := rapid.IntRange(1, 1<<len(ids)-1).Draw(rt, "removeMask")
					removed := 0
					for j, other := range ids {
						if _, ok := out.Ingesters[other]; ok && j != idx && mask&(1<<j) != 0 {
							delete(out.Ingesters, other)
							removed++
						}
					}
					if removed == 0 {
						continue
					}
					out.Ingesters[ids[idx]] = ring.InstanceDesc{Id: ids[idx], Addr: ids[idx] + ":1", Tokens: []uint32{uint32(idx*10 + 1), uint32(idx*10 + 2)}, RegisteredTimestamp: time.Now().Unix(), State: ring.ACTIVE, Timestamp: time.Now().Unix()}
					logf("instance %s registered and %d others removed in one update on replica %d", ids[idx], removed, home)
					casR(home, out)
				case "partition":
					p := int32(rapid.IntRange(0, 2).Draw(rt, "partition"))
					home := int(p) % n
					out := visibleP(ps[home])
					if !out.HasPartition(p) {
						out.Partitions[p] = ring.PartitionDesc{Id: p, Tokens: []uint32{uint32(p)*7 + 1}, State: ring.PartitionPending, StateTimestamp: time.Now().Unix()}
					} else {
						st := rapid.SampledFrom([]ring.PartitionState{ring.PartitionActive, ring.PartitionInactive}).Draw(rt, "pstate")
						if ok, err := out.UpdatePartitionState(p, st, time.Now()); !ok || err != nil {
							continue
						}
					}
					logf("partition %d written on its home replica %d", p, home)
					casP(home, out)
				case "lock":
					p := int32(rapid.IntRange(0, 2).Draw(rt, "partition"))
					home := int(p) % n
					out := visibleP(ps[home])
					if !out.UpdatePartitionStateChangeLock(p, rapid.Bool().Draw(rt, "locked"), time.Now()) {
						continue
					}
					logf("partition %d lock changed on its home replica %d", p, home)
					casP(home, out)
				case "removePartition":
					out := visibleP(ps[i])
					var vis []int32
					for p := int32(0); p < 3; p++ {
						if out.HasPartition(p) {
							vis = append(vis, p)
						}
					}
					if len(vis) == 0 {
						continue
					}
					p := vis[rapid.IntRange(0, len(vis)-1).Draw(rt, "removeWhichPartition")]
					out.RemovePartition(p)
					logf("partition %d removed on replica %d", p, i)
					casP(i, out)
				case "owner":
					oi := rapid.IntRange(0, len(owners)-1).Draw(rt, "owner")
					home := (oi + 1) % n
					out := visibleP(ps[home])
					if !out.AddOrUpdateOwner(owners[oi], ring.OwnerActive, int32(rapid.IntRange(0, 2).Draw(rt, "owned")), time.Now()) {
						continue
					}
					logf("owner %s written on its home replica %d", owners[oi], home)
					casP(home, out)
				case "removeOwner":
					out := visibleP(ps[i])
					var vis []string
					for _, o := range owners {
						if _, ok := out.Owners[o]; ok {
							vis = append(vis, o)
						}
					}
					if len(vis) == 0 {
						continue
					}
					o := vis[rapid.IntRange(0, len(vis)-1).Draw(rt, "removeWhichOwner")]
					out.RemoveOwner(o)
					logf("owner %s removed on replica %d", o, i)
					casP(i, out)
				case "deliver", "deliverOld":
					if len(pool) == 0 {
						continue
					}
					var c *change
					if kind == "deliverOld" {
						c = pool[rapid.IntRange(0, (len(pool)-1)/2).Draw(rt, "oldChange")]
					} else {
						c = pool[rapid.IntRange(0, len(pool)-1).Draw(rt, "change")]
					}
					what := fmt.Sprintf("deliver change #%d (produced %s) to replica %d", c.id, c.at.Format("15:04:05"), i)
					logf("%s", what)
					receive(i, what, c.ring, c.pr)
				case "exchange":
					j := rapid.IntRange(0, n-1).Draw(rt, "peer")
					if i == j {
						continue
					}
					what := fmt.Sprintf("full-state exchange %d -> %d", j, i)
					logf("%s", what)
					receive(i, what, model.CloneDesc(rs[j]), model.ClonePDesc(ps[j]))
				case "step":
					d := time.Duration(rapid.SampledFrom([]int{0, 200, 999, 1000, 1001, 2000, 3000}).Draw(rt, "stepMs")) * time.Millisecond
					time.Sleep(d)
				case "read":
					v := visibleR(rs[i])
					vp := visibleP(ps[i])
					if t := gossip.Tombstones(v, vp); t != "" {
						fail("a reader of replica %d sees a tombstone: %s", i, t)
					}
					// ... and everything else the replica holds (the removal markers go, nothing more)
					if got, want := model.CanonDescN(v), model.CanonDescN(model.StripDesc(rs[i])); got != want {
						fail("a reader of replica %d sees %s, the replica holds (removal markers aside) %s", i, got, want)
					}
					if got, want := model.CanonPDescN(vp), model.CanonPDescN(model.StripPDesc(ps[i])); got != want {
						fail("a reader of replica %d sees %s, the replica holds (removal markers aside) %s", i, got, want)
					}
				}
			}
		})
		vx.Eval(1)
		vx.Class("descriptor_histories", 1)
		vx.Class("descriptor_resurrection_hazards", hazards)
		vx.Class("descriptor_same_second_hazards", sameSecond)
		if hazards > 0 {
			vx.NonTrivial(vx.FP("desc", strings.Join(hist, "\n")))
		}
		if failure != "" {
			rt.Fatalf("%s\nhistory:\n%s", failure, strings.Join(hist, "\n"))
		}
		if vx.WantSample("descriptor_history") && hazards > 0 && len(hist) <= 10 {
			vx.Sample("descriptor_history", hist)
		}
	})
}
