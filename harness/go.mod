module verifharness

go 1.25.9

toolchain go1.26.6

require (
	github.com/alecthomas/units v0.0.0-20240927000941-0f3dac36c52b
	github.com/cespare/xxhash/v2 v2.3.0
	github.com/cristalhq/hedgedhttp v0.9.1
	github.com/davecgh/go-spew v1.1.2-0.20180830191138-d8f796af33cc
	github.com/facette/natsort v0.0.0-20181210072756-2cd4dd1e2dcb
	github.com/felixge/httpsnoop v1.1.0
	github.com/go-kit/log v0.2.1
	github.com/gogo/googleapis v1.4.1
	github.com/gogo/protobuf v1.3.2
	github.com/gogo/status v1.1.1
	github.com/golang/snappy v1.0.0
	github.com/google/go-cmp v0.7.0
	github.com/gorilla/mux v1.8.1
	github.com/grafana/gomemcache v0.0.0-20260728143316-9448343bd654
	github.com/grafana/otel-profiling-go v0.6.0
	github.com/grafana/pyroscope-go/godeltaprof v0.1.12
	github.com/hashicorp/consul/api v1.34.1
	github.com/hashicorp/go-cleanhttp v0.5.2
	github.com/hashicorp/go-metrics v0.6.1
	github.com/hashicorp/go-sockaddr v1.0.7
	github.com/hashicorp/golang-lru/v2 v2.0.7
	github.com/hashicorp/memberlist v0.6.0
	github.com/miekg/dns v1.1.72
	github.com/opentracing-contrib/go-grpc v0.1.4
	github.com/opentracing-contrib/go-stdlib v1.1.1
	github.com/opentracing/opentracing-go v1.2.0
	github.com/pires/go-proxyproto v0.15.0
	github.com/pkg/errors v0.9.1
	github.com/pmezard/go-difflib v1.0.1-0.20181226105442-5d4384ee4fb2
	github.com/prometheus/client_golang v1.24.1
	github.com/prometheus/client_model v0.6.2
	github.com/prometheus/common v0.70.1
	github.com/prometheus/exporter-toolkit v0.17.1
	github.com/sercand/kuberesolver/v6 v6.0.1
	github.com/stretchr/testify v1.11.1
	github.com/uber/jaeger-client-go v2.30.0+incompatible
	github.com/uber/jaeger-lib v2.4.1+incompatible
	go.etcd.io/etcd/api/v3 v3.6.14
	go.etcd.io/etcd/client/pkg/v3 v3.6.14
	go.etcd.io/etcd/client/v3 v3.6.14
	go.opentelemetry.io/contrib/exporters/autoexport v0.70.0
	go.opentelemetry.io/contrib/instrumentation/google.golang.org/grpc/otelgrpc v0.70.0
	go.opentelemetry.io/contrib/instrumentation/net/http/httptrace/otelhttptrace v0.70.0
	go.opentelemetry.io/contrib/instrumentation/net/http/otelhttp v0.70.0
	go.opentelemetry.io/contrib/propagators/jaeger v1.45.0
	go.opentelemetry.io/contrib/samplers/jaegerremote v0.37.2
	go.opentelemetry.io/otel v1.45.0
	go.opentelemetry.io/otel/exporters/jaeger v1.17.0
	go.opentelemetry.io/otel/sdk v1.45.0
	go.opentelemetry.io/otel/trace v1.45.0
	go.uber.org/atomic v1.11.0
	go.uber.org/goleak v1.3.0
	go.yaml.in/yaml/v3 v3.0.5
	golang.org/x/exp v0.0.0-20260727155853-b88d891fe743
	golang.org/x/net v0.58.0
	golang.org/x/sync v0.22.0
	golang.org/x/time v0.15.0
	google.golang.org/grpc v1.83.0
	google.golang.org/protobuf v1.36.11
)

require (
	github.com/HdrHistogram/hdrhistogram-go v1.3.0 // indirect
	github.com/armon/go-metrics v0.4.1 // indirect
	github.com/beorn7/perks v1.0.1 // indirect
	github.com/cenkalti/backoff/v5 v5.0.3 // indirect
	github.com/coreos/go-semver v0.3.1 // indirect
	github.com/coreos/go-systemd/v22 v22.7.0 // indirect
	github.com/fatih/color v1.19.0 // indirect
	github.com/fsnotify/fsnotify v1.10.1 // indirect
	github.com/go-logfmt/logfmt v0.6.1 // indirect
	github.com/go-logr/logr v1.4.4 // indirect
	github.com/go-logr/stdr v1.2.2 // indirect
	github.com/go-viper/mapstructure/v2 v2.5.0 // indirect
	github.com/golang-jwt/jwt/v5 v5.3.1 // indirect
	github.com/golang/protobuf v1.5.4 // indirect
	github.com/google/btree v1.1.3 // indirect
	github.com/google/uuid v1.6.0 // indirect
	github.com/grpc-ecosystem/grpc-gateway/v2 v2.30.0 // indirect
	github.com/hashicorp/errwrap v1.1.0 // indirect
	github.com/hashicorp/go-hclog v1.6.3 // indirect
	github.com/hashicorp/go-immutable-radix v1.3.1 // indirect
	github.com/hashicorp/go-msgpack/v2 v2.1.5 // indirect
	github.com/hashicorp/go-multierror v1.1.1 // indirect
	github.com/hashicorp/go-rootcerts v1.0.2 // indirect
	github.com/hashicorp/golang-lru v1.0.2 // indirect
	github.com/hashicorp/serf v0.10.4 // indirect
	github.com/jaegertracing/jaeger-idl v0.10.0 // indirect
	github.com/jpillora/backoff v1.0.0 // indirect
	github.com/klauspost/compress v1.19.1 // indirect
	github.com/kylelemons/godebug v1.1.0 // indirect
	github.com/mattn/go-colorable v0.1.15 // indirect
	github.com/mattn/go-isatty v0.0.23 // indirect
	github.com/mdlayher/socket v0.6.1 // indirect
	github.com/mdlayher/vsock v1.3.0 // indirect
	github.com/mitchellh/go-homedir v1.1.0 // indirect
	github.com/munnerz/goautoneg v0.0.0-20191010083416-a7dc8b61c822 // indirect
	github.com/mwitkow/go-conntrack v0.0.0-20190716064945-2f068394615f // indirect
	github.com/prometheus/otlptranslator v1.0.0 // indirect
	github.com/prometheus/procfs v0.21.1 // indirect
	github.com/sean-/seed v0.0.0-20170313163322-e2103e2c3529 // indirect
	github.com/stretchr/objx v0.5.3 // indirect
	go.opentelemetry.io/auto/sdk v1.2.1 // indirect
	go.opentelemetry.io/contrib/bridges/prometheus v0.70.0 // indirect
	go.opentelemetry.io/otel/exporters/otlp/otlplog/otlploggrpc v0.21.0 // indirect
	go.opentelemetry.io/otel/exporters/otlp/otlplog/otlploghttp v0.21.0 // indirect
	go.opentelemetry.io/otel/exporters/otlp/otlpmetric/otlpmetricgrpc v1.45.0 // indirect
	go.opentelemetry.io/otel/exporters/otlp/otlpmetric/otlpmetrichttp v1.45.0 // indirect
	go.opentelemetry.io/otel/exporters/otlp/otlptrace v1.45.0 // indirect
	go.opentelemetry.io/otel/exporters/otlp/otlptrace/otlptracegrpc v1.45.0 // indirect
	go.opentelemetry.io/otel/exporters/otlp/otlptrace/otlptracehttp v1.45.0 // indirect
	go.opentelemetry.io/otel/exporters/prometheus v0.67.0 // indirect
	go.opentelemetry.io/otel/exporters/stdout/stdoutlog v0.21.0 // indirect
	go.opentelemetry.io/otel/exporters/stdout/stdoutmetric v1.45.0 // indirect
	go.opentelemetry.io/otel/exporters/stdout/stdouttrace v1.45.0 // indirect
	go.opentelemetry.io/otel/log v0.21.0 // indirect
	go.opentelemetry.io/otel/metric v1.45.0 // indirect
	go.opentelemetry.io/otel/sdk/log v0.21.0 // indirect
	go.opentelemetry.io/otel/sdk/metric v1.45.0 // indirect
	go.opentelemetry.io/proto/otlp v1.11.0 // indirect
	go.uber.org/multierr v1.11.0 // indirect
	go.uber.org/zap v1.28.0 // indirect
	go.yaml.in/yaml/v2 v2.4.4 // indirect
	golang.org/x/crypto v0.55.0 // indirect
	golang.org/x/mod v0.40.0 // indirect
	golang.org/x/oauth2 v0.36.0 // indirect
	golang.org/x/sys v0.47.0 // indirect
	golang.org/x/text v0.41.0 // indirect
	golang.org/x/tools v0.49.0 // indirect
	google.golang.org/genproto/googleapis/api v0.0.0-20260810153831-ec0a7760b754 // indirect
	google.golang.org/genproto/googleapis/rpc v0.0.0-20260810153831-ec0a7760b754 // indirect
	gopkg.in/yaml.v3 v3.0.1 // indirect
)

// Replace memberlist with our fork which includes some fixes that haven't been
// merged upstream yet.
replace github.com/hashicorp/memberlist => github.com/grafana/memberlist v0.3.1-0.20260515134459-1798cf41aca7

require github.com/grafana/dskit v0.0.0

require pgregory.net/rapid v1.3.0

replace github.com/grafana/dskit => /repo
