// Package c07: compare-and-swap is atomic on every KV backend: no lost or phantom updates.
package c07

import (
	"context"
	"fmt"
	"io"
	"sort"
	"strings"
	"sync"
	"testing"
	"time"

	"github.com/go-kit/log"
	"github.com/prometheus/client_golang/prometheus"
	"pgregory.net/rapid"

	"github.com/grafana/dskit/flagext"
	"github.com/grafana/dskit/kv"
	"github.com/grafana/dskit/kv/codec"
	"github.com/grafana/dskit/kv/consul"
	"github.com/grafana/dskit/kv/etcd"
	"github.com/grafana/dskit/kv/memberlist"
	"github.com/grafana/dskit/ring"
	"github.com/grafana/dskit/services"

	"verifharness/internal/model"
	"verifharness/internal/vx"
)

func TestMain(m *testing.M) {
	vx.Rule("a schedule is non-trivial when at some quiescent point >= 2 callers are parked inside their CAS function holding the same read value (a write-write race is actually presented to the store); distinct = distinct (backend, wrapper, operation kinds, schedule) fingerprint")
	vx.Assume("the harness owns the order of reads and conditional writes: every CAS function is gated and released one at a time under a virtual clock; interleavings inside a backend's mutex-protected section are sampled by the un-gated stress test only")
	vx.Assume("backends: the repository's in-memory Consul client, the etcd client on its in-process mock, and one detached gossip KV node (hook NewDetachedKV)")
	vx.Main(m)
}

type parkedCall struct {
	caller, op int
	in         int64
	release    chan struct{}
}

func counterOf(in interface{}) int64 {
	d, _ := in.(*ring.Desc)
	if d == nil {
		return 0
	}
	return d.Ingesters["counter"].Timestamp
}

type scenario struct {
	Backend string `json:"backend"`
	Wrapper string `json:"wrapper"` // bare | prefix | metrics | multi
	// gossip store only: after this many steps the key is deleted and the deletion marker is left to expire,
	// while callers may be in the middle of their function (0 = never)
	DeleteAt int        `json:"delete_at,omitempty"`
	Kinds    [][]string `json:"kinds"` // per caller, per op: inc | decline | fail | failretry
	Plan     []int      `json:"plan"`
	Seed     bool       `json:"precreate"` // key exists before the callers start
	// steps after which a writer outside the callers completes a whole compare-and-swap on a SECOND key
	// ("kk", of which the callers' key "k" is a prefix): keys are independent, neither chain may notice
	Other []int `json:"other_key_writes,omitempty"`
	// in-memory Consul store only: after this many steps the store's index starts again from zero (what a
	// restored snapshot does to a Consul server), while callers may be between their read and their write.
	// The store was given 400 writes on a third key beforehand, so no index a caller holds can come round again
	ResetAt int `json:"reset_index_at,omitempty"`
	// in-memory Consul store only: the client waits up to this long before it tries a CAS again (0 = the
	// in-memory client's default, no wait; production default 1 s)
	RetryDelayMs int `json:"cas_retry_delay_ms,omitempty"`
	// name of the second key (default "kk")
	OtherName string `json:"other_key,omitempty"`
}

func (s scenario) String() string {
	return fmt.Sprintf("backend=%s wrapper=%s precreate=%v kinds=%v plan=%v delete_at=%d other_key_writes=%v(%q) reset_index_at=%d cas_retry_delay_ms=%d", s.Backend, s.Wrapper, s.Seed, s.Kinds, s.Plan, s.DeleteAt, s.Other, s.OtherName, s.ResetAt, s.RetryDelayMs)
}

type env struct {
	consulC      *consul.Client // the store under test when it is the in-memory Consul store
	client       kv.Client
	secondary    kv.Client // multi wrapper: the store the primary's writes are mirrored to
	rival        *rivalStore
	primaryName  string
	retryDelayMs int
	closers      []io.Closer
	mkvs         []*memberlist.KV
}

func (e *env) close() {
	for _, c := range e.closers {
		_ = c.Close()
	}
	for _, m := range e.mkvs {
		_ = services.StopAndAwaitTerminated(context.Background(), m)
	}
}

func (e *env) backend(name string) (kv.Client, error) {
	switch name {
	case "consul":
		c, closer := consul.NewInMemoryClientWithConfig(ring.GetCodec(), consul.Config{CasRetryDelay: time.Duration(e.retryDelayMs) * time.Millisecond}, log.NewNopLogger(), nil)
		e.closers = append(e.closers, closer)
		if e.consulC == nil && name == e.primaryName {
			e.consulC = c
		}
		return c, nil
	case "etcd":
		c, closer := etcd.NewInMemoryClient(ring.GetCodec(), log.NewNopLogger())
		e.closers = append(e.closers, closer)
		return c, nil
	default:
		var cfg memberlist.KVConfig
		flagext.DefaultValues(&cfg)
		cfg.Codecs = []codec.Codec{ring.GetCodec()}
		mkv := memberlist.NewDetachedKV(cfg, log.NewNopLogger(), nil, func() int { return 1 })
		if err := services.StartAndAwaitRunning(context.Background(), mkv); err != nil {
			return nil, err
		}
		e.mkvs = append(e.mkvs, mkv)
		return memberlist.NewClient(mkv, ring.GetCodec())
	}
}

func newEnv(sc scenario) (*env, error) {
	e := &env{primaryName: sc.Backend, retryDelayMs: sc.RetryDelayMs}
	c, err := e.backend(sc.Backend)
	if err != nil {
		return nil, err
	}
	switch sc.Wrapper {
	case "prefix":
		c = kv.PrefixClient(c, "pfx/")
	case "metrics":
		c = kv.VerifMetricsClient(sc.Backend, c, prometheus.NewRegistry())
	case "multi":
		other := "consul"
		if sc.Backend == "consul" {
			other = "etcd"
		}
		sec, err := e.backend(other)
		if err != nil {
			return nil, err
		}
		e.secondary = sec
		c = kv.VerifNewMultiClient(kv.MultiConfig{MirrorEnabled: true}, sc.Backend, c, other, sec, log.NewNopLogger(), nil)
	case "multi-badmirror":
		// the store the writes are mirrored to rejects every write: mirroring is best effort, the outcome
		// of a call is the outcome on the primary store
		other := "consul"
		if sc.Backend == "consul" {
			other = "etcd"
		}
		sec, err := e.backend(other)
		if err != nil {
			return nil, err
		}
		c = kv.VerifNewMultiClient(kv.MultiConfig{MirrorEnabled: true}, sc.Backend, c, other, rejectingStore{sec}, log.NewNopLogger(), nil)
	case "multi-switched":
		// the store under test is the second of the two and was made the primary at run time; just before
		// some of the writes that reach it, a rival writer (outside the multi client) completes a whole
		// compare-and-swap of its own on it
		other := "consul"
		if sc.Backend == "consul" {
			other = "etcd"
		}
		sec, err := e.backend(other)
		if err != nil {
			return nil, err
		}
		e.secondary = sec
		ch := make(chan kv.MultiRuntimeConfig)
		e.closers = append(e.closers, closerFunc(func() error { close(ch); return nil }))
		rs := &rivalStore{Client: c}
		e.rival = rs
		mc := kv.VerifNewMultiClient(kv.MultiConfig{MirrorEnabled: true, ConfigProvider: func() <-chan kv.MultiRuntimeConfig { return ch }}, other, sec, sc.Backend, rs, log.NewNopLogger(), nil)
		ch <- kv.MultiRuntimeConfig{PrimaryStore: sc.Backend}
		ch <- kv.MultiRuntimeConfig{} // the first message has been processed once this one is taken
		c = mc
	case "prefix+metrics":
		c = kv.VerifMetricsClient(sc.Backend, kv.PrefixClient(c, "pfx/"), prometheus.NewRegistry())
	}
	e.client = c
	return e, nil
}

type closerFunc func() error

func (f closerFunc) Close() error { return f() }

// rivalStore calls before() ahead of every write that reaches the wrapped store.
type rivalStore struct {
	kv.Client
	mu     sync.Mutex
	n      int
	before func(n int)
}

func (r *rivalStore) CAS(ctx context.Context, key string, f func(interface{}) (interface{}, bool, error)) error {
	r.mu.Lock()
	r.n++
	n, before := r.n, r.before
	r.mu.Unlock()
	if before != nil {
		before(n)
	}
	return r.Client.CAS(ctx, key, f)
}

// rejectingStore fails every write.
type rejectingStore struct{ kv.Client }

func (rejectingStore) CAS(context.Context, string, func(interface{}) (interface{}, bool, error)) error {
	return fmt.Errorf("mirror store unavailable")
}

type outcome struct {
	failure       string
	races         int
	branching     []int // number of choices at each step (for exhaustive exploration)
	commits       int
	incomplete    bool
	mirrorChecked bool
	rivals        int
	deletes       int
	others        int
	resets        int
}

// execute runs the callers under the schedule: at each step the plan picks among "start a caller not
// yet started" and "release a parked caller"; after the plan is exhausted everything is drained.
func execute(t *testing.T, sc scenario) (out outcome) {
	vx.Bubble(t, func(b *vx.B) {
		e, err := newEnv(sc)
		if err != nil {
			out.failure = fmt.Sprintf("setup: %v", err)
			return
		}
		b.Cleanup(e.close)
		client := e.client
		ctx := context.Background()
		if sc.ResetAt > 0 && e.consulC != nil {
			for i := 0; i < 400; i++ {
				if err := e.consulC.CAS(ctx, "warm-up", func(interface{}) (interface{}, bool, error) {
					d := ring.NewDesc()
					d.Ingesters["w"] = ring.InstanceDesc{Timestamp: int64(i + 1)}
					return d, true, nil
				}); err != nil {
					out.failure = fmt.Sprintf("warm-up write: %v", err)
					return
				}
			}
		}
		if sc.Seed {
			if err := client.CAS(ctx, "k", func(interface{}) (interface{}, bool, error) {
				d := ring.NewDesc()
				d.Ingesters["seed"] = ring.InstanceDesc{Timestamp: 1, Addr: "seed"}
				return d, true, nil
			}); err != nil {
				out.failure = fmt.Sprintf("seeding the key: %v", err)
				return
			}
		}
		var mu sync.Mutex
		parked := map[int]*parkedCall{}
		type commit struct {
			caller, op int
			in         int64
			epoch      int // number of deletions of the key before the call returned
		}
		epoch, epochStart := 0, 0
		var commits []commit
		leftover := ""
		attemptOut := map[string]string{} // value produced by some attempt -> which
		committedOut := map[string]bool{} // values produced by the attempts that committed
		notWritten := map[string]bool{}
		started := map[int]bool{}
		var wg sync.WaitGroup
		nCallers := len(sc.Kinds)
		releaseAll := func() {
			for k := 0; k < 2000; k++ {
				vx.Wait()
				mu.Lock()
				var ps []*parkedCall
				for c, p := range parked {
					ps = append(ps, p)
					delete(parked, c)
				}
				mu.Unlock()
				if len(ps) == 0 {
					return
				}
				for _, p := range ps {
					close(p.release)
				}
			}
		}
		b.Cleanup(func() { releaseAll(); wg.Wait() })
		active := 0 // callers started and not yet finished (under mu)
		runCaller := func(c int) {
			defer wg.Done()
			defer func() { mu.Lock(); active--; mu.Unlock() }()
			for o, kind := range sc.Kinds[c] {
				var lastIn int64 = -1
				var lastOut string
				wrote := false
				attempts := 0
				cctx, cancel := context.WithCancel(ctx)
				err := client.CAS(cctx, "k", func(in interface{}) (interface{}, bool, error) {
					attempts++
					p := &parkedCall{caller: c, op: o, in: counterOf(in), release: make(chan struct{})}
					mu.Lock()
					parked[c] = p
					mu.Unlock()
					<-p.release
					lastIn = p.in
					wrote = false
					switch {
					case kind == "decline":
						return nil, false, nil
					case kind == "fail":
						return nil, false, fmt.Errorf("boom")
					case kind == "failretry" && attempts <= 2:
						return nil, true, fmt.Errorf("retry me")
					case kind == "scribbleRetry" && attempts == 1:
						// works on its input in place, then gives up this attempt and asks for another: the next
						// attempt must be handed the stored value, not this attempt's leftovers
						if d, ok := in.(*ring.Desc); ok && d != nil {
							d.Ingesters["scribble"] = ring.InstanceDesc{Addr: "leftover of an aborted attempt"}
						}
						return nil, true, fmt.Errorf("retry me")
					case kind == "cancelInside":
						// the caller's context ends while its function runs (a deadline, a shutdown); whatever the
						// call then reports must be what happened to the stored value
						cancel()
					case kind == "incOnce" && attempts > 1:
						// wrote on the first attempt, lost the race, and on the retry sees no need any more
						return nil, false, nil
					}
					d := ring.GetOrCreateRingDesc(in)
					if _, dirty := d.Ingesters["scribble"]; dirty {
						mu.Lock()
						if leftover == "" {
							leftover = fmt.Sprintf("caller %d op %d attempt %d was handed a value containing the modifications of an aborted attempt", c, o, attempts)
						}
						mu.Unlock()
					}
					cnt := d.Ingesters["counter"]
					cnt.Timestamp = p.in + 1
					cnt.Addr = "counter"
					d.Ingesters["counter"] = cnt
					d.Ingesters[fmt.Sprintf("op-%d-%d", c, o)] = ring.InstanceDesc{Timestamp: 1, Addr: "x"}
					wrote = true
					mu.Lock()
					attemptOut[model.CanonDesc(d)] = fmt.Sprintf("caller %d op %d attempt %d", c, o, attempts)
					lastOut = model.CanonDesc(d)
					mu.Unlock()
					return d, true, nil
				})
				cancel()
				mu.Lock()
				if err == nil && wrote {
					commits = append(commits, commit{c, o, lastIn, epoch})
					committedOut[lastOut] = true
				} else {
					notWritten[fmt.Sprintf("op-%d-%d", c, o)] = true
				}
				mu.Unlock()
			}
		}
		if e.rival != nil {
			rivals := 0
			e.rival.before = func(n int) {
				// ahead of the 2nd, 3rd and 5th write reaching the primary store
				if n != 2 && n != 3 && n != 5 {
					return
				}
				mu.Lock()
				rivals++
				id := rivals
				mu.Unlock()
				var in int64
				var outS string
				err := e.rival.Client.CAS(ctx, "k", func(v interface{}) (interface{}, bool, error) {
					in = counterOf(v)
					d := ring.GetOrCreateRingDesc(v)
					cnt := d.Ingesters["counter"]
					cnt.Timestamp = in + 1
					cnt.Addr = "counter"
					d.Ingesters["counter"] = cnt
					d.Ingesters[fmt.Sprintf("op-%d-%d", 90, id)] = ring.InstanceDesc{Timestamp: 1, Addr: "x"}
					outS = model.CanonDesc(d)
					return d, true, nil
				})
				mu.Lock()
				if err == nil {
					commits = append(commits, commit{90, id, in, epoch})
					committedOut[outS] = true
					out.rivals++
				} else {
					notWritten[fmt.Sprintf("op-%d-%d", 90, id)] = true
				}
				mu.Unlock()
			}
		}
		fail := func(f string, a ...any) {
			if out.failure == "" {
				out.failure = fmt.Sprintf(f, a...)
			}
		}
		checkNow := func(where string) {
			mu.Lock()
			lo := leftover
			mu.Unlock()
			if lo != "" {
				fail("%s: %s", where, lo)
				return
			}
			v, err := client.Get(ctx, "k")
			if err != nil {
				fail("%s: Get: %v", where, err)
				return
			}
			mu.Lock()
			n := len(commits) - epochStart
			mu.Unlock()
			if got := counterOf(v); got != int64(n) {
				mu.Lock()
				cs := fmt.Sprint(commits)
				mu.Unlock()
				fail("%s: the stored counter is %d but %d compare-and-swap calls have reported success so far (committed (caller, op, input): %s)", where, got, n, cs)
			}
		}
		// the second key: whole compare-and-swap calls by a writer of its own, checked against its own counter
		otherDone := 0
		otherKey := sc.OtherName
		if otherKey == "" {
			otherKey = "kk"
		}
		checkOther := func(where string) {
			if len(sc.Other) == 0 {
				return
			}
			v, err := client.Get(ctx, otherKey)
			if err != nil {
				fail("%s: Get of the other key: %v", where, err)
				return
			}
			d := ring.GetOrCreateRingDesc(v)
			want := otherDone
			if otherDone > 0 {
				want++
			}
			if got := counterOf(v); got != int64(otherDone) || len(d.Ingesters) != want {
				fail("%s: the other key holds counter %d and entries %v, but %d writes to it have succeeded (the callers only ever write their own key)", where, got, names(d), otherDone)
			}
		}
		otherWrite := func(where string) {
			var in int64
			err := client.CAS(ctx, otherKey, func(v interface{}) (interface{}, bool, error) {
				in = counterOf(v)
				d := ring.GetOrCreateRingDesc(v)
				cnt := d.Ingesters["counter"]
				cnt.Timestamp = in + 1
				cnt.Addr = "counter"
				d.Ingesters["counter"] = cnt
				d.Ingesters[fmt.Sprintf("other-%d", in)] = ring.InstanceDesc{Timestamp: 1, Addr: "y"}
				return d, true, nil
			})
			if err != nil {
				fail("%s: compare-and-swap on the other key (no competitor there): %v", where, err)
				return
			}
			if in != int64(otherDone) {
				fail("%s: the write on the other key was handed counter %d, %d writes to it have succeeded", where, in, otherDone)
				return
			}
			otherDone++
			out.others++
			checkOther(where)
		}
		step := func(choice int) bool {
			vx.Wait()
			if sc.RetryDelayMs > 0 {
				// a caller may be waiting out the client's retry delay: let the time pass until every running
				// caller is inside its function again or has finished
				for k := 0; k < 100; k++ {
					mu.Lock()
					waiting := active - len(parked)
					mu.Unlock()
					if waiting <= 0 {
						break
					}
					time.Sleep(time.Duration(sc.RetryDelayMs+50) * time.Millisecond)
					vx.Wait()
					if k == 99 {
						fail("a caller is neither inside its function nor finished %v after its last attempt (retry delay %d ms)", 100*time.Duration(sc.RetryDelayMs+50)*time.Millisecond, sc.RetryDelayMs)
						return false
					}
				}
			}
			mu.Lock()
			var parkedIDs []int
			seen := map[int64]int{}
			for c, p := range parked {
				parkedIDs = append(parkedIDs, c)
				seen[p.in]++
			}
			race := false
			for _, n := range seen {
				if n >= 2 {
					race = true
				}
			}
			mu.Unlock()
			if race {
				out.races++
			}
			sort.Ints(parkedIDs)
			var startable []int
			for c := 0; c < nCallers; c++ {
				if !started[c] {
					startable = append(startable, c)
				}
			}
			total := len(parkedIDs) + len(startable)
			if total == 0 {
				return false
			}
			out.branching = append(out.branching, total)
			pick := choice % total
			if pick < len(startable) {
				c := startable[pick]
				started[c] = true
				wg.Add(1)
				mu.Lock()
				active++
				mu.Unlock()
				go runCaller(c)
			} else {
				c := parkedIDs[pick-len(startable)]
				mu.Lock()
				p := parked[c]
				delete(parked, c)
				mu.Unlock()
				close(p.release)
			}
			vx.Wait()
			checkNow(fmt.Sprintf("after step %d", len(out.branching)))
			for _, at := range sc.Other {
				if at == len(out.branching) && out.failure == "" {
					otherWrite(fmt.Sprintf("after step %d", at))
					checkNow(fmt.Sprintf("after the write on the other key following step %d", at))
				}
			}
			if sc.ResetAt > 0 && len(out.branching) == sc.ResetAt && e.consulC != nil && out.failure == "" {
				if consul.VerifResetIndex(e.consulC) {
					out.resets++
					vx.Wait()
					checkNow(fmt.Sprintf("after the index reset following step %d", len(out.branching)))
				}
			}
			if sc.DeleteAt > 0 && len(out.branching) == sc.DeleteAt && out.failure == "" {
				// the key is deleted and its deletion marker expires and is purged; callers that read the key
				// before must not succeed with what they computed from the deleted value
				if err := client.Delete(ctx, "k"); err != nil {
					fail("Delete: %v", err)
					return false
				}
				time.Sleep(65 * time.Second)
				vx.Wait()
				mu.Lock()
				epoch++
				epochStart = len(commits)
				mu.Unlock()
				out.deletes++
				checkNow(fmt.Sprintf("after the deletion following step %d", len(out.branching)))
				checkOther(fmt.Sprintf("after the deletion of the callers' key following step %d", len(out.branching)))
			}
			return out.failure == ""
		}
		for _, a := range sc.Plan {
			if !step(a) {
				break
			}
		}
		// drain deterministically: always the first choice
		for k := 0; k < 5000 && out.failure == ""; k++ {
			if !step(0) {
				break
			}
			if k == 4999 {
				out.incomplete = true
			}
		}
		if out.failure != "" {
			return
		}
		wg.Wait()
		checkOther("at the end")
		if out.failure != "" {
			return
		}
		v, err := client.Get(ctx, "k")
		if err != nil {
			fail("final Get: %v", err)
			return
		}
		final := ring.GetOrCreateRingDesc(v)
		// chain oracle
		out.commits = len(commits)
		for ep := 0; ep < epoch; ep++ {
			// calls that returned before a deletion of the key: a chain of their own
			var old []commit
			for _, c := range commits {
				if c.epoch == ep {
					old = append(old, c)
				}
			}
			sort.Slice(old, func(a, b int) bool { return old[a].in < old[b].in })
			for i, c := range old {
				if c.in != int64(i) {
					fail("lost or phantom update before deletion %d of the key: the successful calls saw the inputs %v (sorted), want each of 0..%d exactly once", ep+1, old, len(old)-1)
					return
				}
			}
		}
		commits = commits[epochStart:]
		sort.Slice(commits, func(a, b int) bool { return commits[a].in < commits[b].in })
		for i, c := range commits {
			if c.in != int64(i) {
				fail("lost or phantom update: the successful calls (since the last deletion of the key, if any) saw the inputs %v (sorted), want each of 0..%d exactly once; final value %v", commits, len(commits)-1, names(final))
				return
			}
		}
		if final.Ingesters["counter"].Timestamp != int64(len(commits)) {
			fail("final counter %d, but %d calls reported success (%v)", final.Ingesters["counter"].Timestamp, len(commits), commits)
		}
		for _, c := range commits {
			if _, ok := final.Ingesters[fmt.Sprintf("op-%d-%d", c.caller, c.op)]; !ok {
				fail("successful call (caller %d, op %d) is missing from the final value %v", c.caller, c.op, names(final))
			}
		}
		for id := range final.Ingesters {
			if notWritten[id] {
				fail("%s failed or declined to write but is present in the final value", id)
			}
		}
		want := len(commits)
		if len(commits) > 0 {
			want++ // the counter entry
		}
		if sc.Seed && epoch == 0 {
			want++
		}
		if len(final.Ingesters) != want {
			fail("final value has %d entries %v, want %d", len(final.Ingesters), names(final), want)
		}
		// the mirror only ever receives values that a successful call wrote (mirroring is best effort and
		// may lag or be reordered, but a value no successful call produced must never appear there)
		if e.secondary != nil {
			time.Sleep(5 * time.Second)
			vx.Wait()
			sv, err := e.secondary.Get(ctx, "k")
			if err == nil && sv != nil {
				got := model.CanonDesc(sv.(*ring.Desc))
				mu.Lock()
				okc, who := committedOut[got], attemptOut[got]
				mu.Unlock()
				if !okc && !(sc.Seed && len(sv.(*ring.Desc).Ingesters) == 1) {
					fail("the mirror store holds %s, which no successful call wrote (produced by: %s)", got, who)
				}
				out.mirrorChecked = true
			}
		}
	})
	return out
}

func names(d *ring.Desc) []string {
	var out []string
	for id := range d.Ingesters {
		out = append(out, id)
	}
	sort.Strings(out)
	return out
}

var backends = []string{"consul", "etcd", "memberlist"}
var wrappers = []string{"bare", "bare", "prefix", "metrics", "multi", "multi", "multi-badmirror", "multi-switched", "multi-switched", "prefix+metrics"}

func TestCASSchedulesRapid(t *testing.T) {
	rapid.Check(t, func(rt *rapid.T) {
		sc := scenario{Backend: rapid.SampledFrom(backends).Draw(rt, "backend"), Wrapper: rapid.SampledFrom(wrappers).Draw(rt, "wrapper"), Seed: rapid.Bool().Draw(rt, "precreate")}
		nCallers := rapid.IntRange(2, vx.Pick(5, 8)).Draw(rt, "callers")
		nOps := rapid.IntRange(1, vx.Pick(4, 6)).Draw(rt, "ops")
		for c := 0; c < nCallers; c++ {
			var ks []string
			for o := 0; o < nOps; o++ {
				ks = append(ks, rapid.SampledFrom([]string{"inc", "inc", "inc", "inc", "decline", "fail", "failretry", "incOnce", "incOnce", "scribbleRetry", "cancelInside"}).Draw(rt, "kind"))
			}
			sc.Kinds = append(sc.Kinds, ks)
		}
		sc.Plan = rapid.SliceOfN(rapid.IntRange(0, 1000), 5, 120).Draw(rt, "plan")
		if sc.Backend == "memberlist" && !strings.HasPrefix(sc.Wrapper, "multi") {
			if d := rapid.IntRange(-6, 14).Draw(rt, "deleteAfterStep"); d > 0 {
				sc.DeleteAt = d
			}
		}
		if sc.Backend == "consul" {
			if d := rapid.IntRange(-8, 12).Draw(rt, "resetIndexAfterStep"); d > 0 {
				sc.ResetAt = d
			}
		}
		if rapid.IntRange(0, 2).Draw(rt, "otherKey") == 0 {
			sc.Other = rapid.SliceOfN(rapid.IntRange(1, 16), 1, 4).Draw(rt, "otherKeyWrites")
			// the callers' key is a prefix of it, or differs from it by a leading or trailing slash only
			sc.OtherName = rapid.SampledFrom([]string{"kk", "/k", "k/"}).Draw(rt, "otherKeyName")
		}
		if sc.Backend == "consul" && rapid.Bool().Draw(rt, "casRetryDelay") {
			sc.RetryDelayMs = rapid.SampledFrom([]int{200, 1000}).Draw(rt, "casRetryDelayMs")
		}
		out := execute(t, sc)
		vx.Eval(1)
		if out.others > 0 {
			vx.Class("schedules_with_writes_on_a_second_key_in_between", 1)
		}
		if out.resets > 0 {
			vx.Class("schedules_with_the_consul_index_reset_in_between", 1)
		}
		vx.Class("backend_"+sc.Backend, 1)
		vx.Class("wrapper_"+sc.Wrapper, 1)
		if out.deletes > 0 {
			vx.Class("schedules_with_the_key_deleted_and_purged_in_between", 1)
		}
		if out.rivals > 0 {
			vx.Class("schedules_with_rival_writes_on_a_primary_switched_at_run_time", 1)
		}
		if out.races > 0 {
			vx.NonTrivial(vx.FP(sc.String()))
			vx.Class("quiescent_points_with_shared_read", out.races)
		}
		if out.failure != "" {
			rt.Fatalf("%s\n%s", out.failure, sc)
		}
		if vx.WantSample("cas_schedule_"+sc.Backend) && out.races > 0 && len(sc.Plan) < 25 {
			vx.Sample("cas_schedule_"+sc.Backend, map[string]any{"scenario": sc.String(), "successful_calls": out.commits})
		}
	})
}

// TestCASSchedulesExhaustive explores every schedule (stateless depth-first search by re-execution)
// of 2 callers on each backend, with and without a pre-existing key.
func TestCASSchedulesExhaustive(t *testing.T) {
	var rc scenario
	if vx.ReplayCase("TestCASSchedulesExhaustive", &rc) {
		if out := execute(t, rc); out.failure != "" {
			t.Fatalf("replay: %s\n%s", out.failure, rc)
		}
		return
	}
	kindSets := [][][]string{{{"inc"}, {"inc"}}, {{"inc", "inc"}, {"inc"}}, {{"inc"}, {"decline", "inc"}}, {{"failretry"}, {"inc"}}, {{"inc", "inc"}, {"inc", "inc"}}, {{"inc"}, {"inc"}, {"inc"}}, {{"fail", "inc"}, {"inc", "decline"}}, {{"incOnce"}, {"inc"}}, {{"incOnce", "inc"}, {"incOnce"}}, {{"scribbleRetry"}, {"inc"}}}
	if vx.Thorough() {
		kindSets = append(kindSets, [][]string{{"inc", "inc", "inc"}, {"inc", "inc"}}, [][]string{{"inc", "inc"}, {"inc"}, {"inc"}}, [][]string{{"inc"}, {"inc"}, {"inc"}, {"inc"}})
	}
	idx := 0
	for _, be := range backends {
		for _, seed := range []bool{false, true} {
			for ki, kinds := range kindSets {
				idx++
				if !vx.Mine(idx) {
					continue
				}
				plan := []int{}
				explored := 0
				for {
					sc := scenario{Backend: be, Wrapper: "bare", Kinds: kinds, Plan: plan, Seed: seed}
					out := execute(t, sc)
					explored++
					vx.Eval(1)
					if out.races > 0 {
						vx.NonTrivial(vx.FP("ex", be, seed, ki, fmt.Sprint(plan)))
					}
					if out.failure != "" {
						vx.Failf(t, "TestCASSchedulesExhaustive", sc, "%s\n%s", out.failure, sc)
					}
					if out.incomplete {
						t.Fatalf("schedule did not terminate: %s", sc)
					}
					// next plan in depth-first order: extend to the full branching vector, then increment
					full := make([]int, len(out.branching))
					copy(full, plan)
					i := len(full) - 1
					for ; i >= 0; i-- {
						if full[i]+1 < out.branching[i] {
							full[i]++
							full = full[:i+1]
							break
						}
					}
					if i < 0 {
						break
					}
					plan = full
					if explored > vx.Pick(6000, 200000) {
						vx.Note("exploration of %s/%v/%v cut at %d schedules", be, seed, kinds, explored)
						break
					}
				}
				vx.Note("%s precreate=%v kinds=%v: %d schedules", be, seed, kinds, explored)
				vx.Class("exhaustive_schedules", explored)
			}
		}
	}
	vx.Exhaustive("every start/release schedule of the listed 2-caller workloads on each backend, with and without a pre-existing key (see notes for cut-offs)")
}

// TestPurgedKeySchedulesExhaustive: the gossip store, every start/release schedule of two small workloads,
// with the key deleted and its deletion marker purged after the 1st..4th step (regression for F14: versions
// that start again after the purge let a caller that read the key before succeed on a re-created key).
func TestPurgedKeySchedulesExhaustive(t *testing.T) {
	var rc scenario
	if vx.ReplayCase("TestPurgedKeySchedulesExhaustive", &rc) {
		if out := execute(t, rc); out.failure != "" {
			t.Fatalf("replay: %s\n%s", out.failure, rc)
		}
		return
	}
	kindSets := [][][]string{{{"inc"}, {"inc"}}, {{"inc", "inc"}, {"inc"}}}
	idx := 0
	for _, seed := range []bool{true, false} {
		for ki, kinds := range kindSets {
			for del := 1; del <= 4; del++ {
				idx++
				if !vx.Mine(idx) {
					continue
				}
				plan := []int{}
				explored := 0
				for {
					sc := scenario{Backend: "memberlist", Wrapper: "bare", Kinds: kinds, Plan: plan, Seed: seed, DeleteAt: del}
					out := execute(t, sc)
					explored++
					vx.Eval(1)
					if out.deletes > 0 {
						vx.NonTrivial(vx.FP("purge", seed, ki, del, fmt.Sprint(plan)))
					}
					if out.failure != "" {
						vx.Failf(t, "TestPurgedKeySchedulesExhaustive", sc, "%s\n%s", out.failure, sc)
					}
					if out.incomplete {
						t.Fatalf("schedule did not terminate: %s", sc)
					}
					full := make([]int, len(out.branching))
					copy(full, plan)
					i := len(full) - 1
					for ; i >= 0; i-- {
						if full[i]+1 < out.branching[i] {
							full[i]++
							full = full[:i+1]
							break
						}
					}
					if i < 0 {
						break
					}
					plan = full
					if explored > 3000 {
						vx.Note("exploration of precreate=%v kinds=%v delete_at=%d cut at %d schedules", seed, kinds, del, explored)
						break
					}
				}
				vx.Class("exhaustive_schedules_with_a_purge", explored)
			}
		}
	}
	vx.Exhaustive("gossip store: every start/release schedule of {one increment each; two and one} by two callers, with and without a pre-existing key, the key deleted and purged after the 1st, 2nd, 3rd or 4th step")
}

// TestCASStress: un-gated callers on OS threads (no bubble): the store's own locking is exercised.
func TestCASStress(t *testing.T) {
	for _, be := range backends {
		for _, wr := range []string{"bare", "multi"} {
			sc := scenario{Backend: be, Wrapper: wr, Seed: true}
			e, err := newEnv(sc)
			if err != nil {
				t.Fatalf("setup: %v", err)
			}
			for _, m := range e.mkvs {
				m.VerifSetMaxCasRetries(1000)
			}
			ctx := context.Background()
			nCallers, nOps := vx.Pick(8, 16), vx.Pick(20, 50)
			var wg sync.WaitGroup
			var mu sync.Mutex
			var ins []int64
			for c := 0; c < nCallers; c++ {
				wg.Add(1)
				go func(c int) {
					defer wg.Done()
					for o := 0; o < nOps; o++ {
						var in int64
						err := e.client.CAS(ctx, "k", func(v interface{}) (interface{}, bool, error) {
							in = counterOf(v)
							d := ring.GetOrCreateRingDesc(v)
							cnt := d.Ingesters["counter"]
							cnt.Timestamp = in + 1
							d.Ingesters["counter"] = cnt
							return d, true, nil
						})
						if err == nil {
							mu.Lock()
							ins = append(ins, in)
							mu.Unlock()
						}
					}
				}(c)
			}
			wg.Wait()
			vx.Eval(1)
			vx.NonTrivial(vx.FP("stress", be, wr))
			sort.Slice(ins, func(a, b int) bool { return ins[a] < ins[b] })
			for i, in := range ins {
				if in != int64(i) {
					e.close()
					t.Fatalf("[%s/%s] lost update under stress: successful calls saw inputs %v...", be, wr, ins[:min(len(ins), i+3)])
				}
			}
			v, _ := e.client.Get(ctx, "k")
			if counterOf(v) != int64(len(ins)) {
				e.close()
				t.Fatalf("[%s/%s] final counter %d, successes %d", be, wr, counterOf(v), len(ins))
			}
			e.close()
		}
	}
	_ = strings.Join
}

// TestFirstWriteStress: un-gated callers race on the FIRST write of fresh keys with a large value, so
// that whatever a store does between reading "no value" and publishing the first value (clone, encode)
// takes long enough for another caller to get in. Chain oracle per key.
func TestFirstWriteStress(t *testing.T) {
	filler := func(d *ring.Desc, c int) {
		for i := 0; i < 400; i++ {
			id := fmt.Sprintf("filler-%d-%03d", c, i)
			d.Ingesters[id] = ring.InstanceDesc{Timestamp: 1, Addr: id, Tokens: []uint32{uint32(i), uint32(i + 1000), uint32(i + 2000)}}
		}
	}
	for _, be := range backends {
		sc := scenario{Backend: be, Wrapper: "bare"}
		e, err := newEnv(sc)
		if err != nil {
			t.Fatalf("setup: %v", err)
		}
		for _, m := range e.mkvs {
			m.VerifSetMaxCasRetries(1000)
		}
		ctx := context.Background()
		rounds, nCallers := vx.Pick(150, 1500), 4
		for r := 0; r < rounds; r++ {
			key := fmt.Sprintf("k%d", r)
			var wg sync.WaitGroup
			var mu sync.Mutex
			var ins []int64
			startGun := make(chan struct{})
			for c := 0; c < nCallers; c++ {
				wg.Add(1)
				go func(c int) {
					defer wg.Done()
					<-startGun
					var in int64
					err := e.client.CAS(ctx, key, func(v interface{}) (interface{}, bool, error) {
						in = counterOf(v)
						d := ring.GetOrCreateRingDesc(v)
						if in == 0 {
							filler(d, c)
						}
						cnt := d.Ingesters["counter"]
						cnt.Timestamp = in + 1
						d.Ingesters["counter"] = cnt
						d.Ingesters[fmt.Sprintf("op-%d", c)] = ring.InstanceDesc{Timestamp: 1, Addr: "x"}
						return d, true, nil
					})
					if err == nil {
						mu.Lock()
						ins = append(ins, in)
						mu.Unlock()
					}
				}(c)
			}
			close(startGun)
			wg.Wait()
			vx.Eval(1)
			sort.Slice(ins, func(a, b int) bool { return ins[a] < ins[b] })
			v, _ := e.client.Get(ctx, key)
			for i, in := range ins {
				if in != int64(i) {
					e.close()
					t.Fatalf("[%s] first-write race on key %s: the successful calls saw the inputs %v, want 0..%d once each (final counter %d)", be, key, ins, len(ins)-1, counterOf(v))
				}
			}
			d := ring.GetOrCreateRingDesc(v)
			if counterOf(v) != int64(len(ins)) {
				e.close()
				t.Fatalf("[%s] key %s: final counter %d, %d successes", be, key, counterOf(v), len(ins))
			}
			ops := 0
			for id := range d.Ingesters {
				if strings.HasPrefix(id, "op-") {
					ops++
				}
			}
			if ops != len(ins) {
				e.close()
				t.Fatalf("[%s] key %s: %d calls succeeded but the final value records %d of them: an update was overwritten unseen", be, key, len(ins), ops)
			}
		}
		vx.NonTrivial(vx.FP("first-write-stress", be))
		e.close()
	}
}
