// Package c16: generated tokens are unique, untaken, sorted; the spread-minimising generator is pure.
package c16

import (
	"fmt"
	"math"
	"slices"
	"sort"
	"testing"
	"time"

	"pgregory.net/rapid"

	"github.com/grafana/dskit/ring"

	"verifharness/internal/vx"
)

func TestMain(m *testing.M) {
	vx.Rule("random generator: a request is non-trivial when its taken set is the output of a same-seed generator (every first candidate collides) or when >= 100000 tokens are requested (a 32-bit birthday collision among raw candidates is near-certain); spread-minimising: every (zone, prefix n >= 2) and every (instance, zone, taken set, count) request; distinct = distinct request")
	vx.Assume("spread is measured by the harness's own ownership computation: sum over an instance's tokens of the distance from the preceding token of the same zone")
	vx.Main(m)
}

func checkSortedUnique(toks []uint32) error {
	for i := 1; i < len(toks); i++ {
		if toks[i-1] >= toks[i] {
			return fmt.Errorf("tokens not strictly increasing at %d: %d, %d", i, toks[i-1], toks[i])
		}
	}
	return nil
}

func TestRandomGeneratorRapid(t *testing.T) {
	rapid.Check(t, func(rt *rapid.T) {
		seed := rapid.Int64().Draw(rt, "seed")
		kind := rapid.IntRange(0, 9).Draw(rt, "kind")
		var count int
		switch {
		case kind == 0:
			count = rapid.IntRange(100000, vx.Pick(120000, 200000)).Draw(rt, "hugeCount")
		case kind <= 2:
			count = rapid.IntRange(-2, 2).Draw(rt, "tinyCount")
		default:
			count = rapid.IntRange(1, 2000).Draw(rt, "count")
		}
		var taken []uint32
		sameSeed := false
		switch rapid.IntRange(0, 5).Draw(rt, "takenKind") {
		case 0:
		case 1:
			// the output of a same-seed generator: every first candidate is already taken
			n := count
			if n < 1 {
				n = 1
			}
			if n > 5000 {
				n = 5000
			}
			taken = ring.NewRandomTokenGeneratorWithSeed(seed).GenerateTokens(n, nil)
			sameSeed = true
		case 2:
			taken = rapid.SliceOfN(rapid.Uint32(), 0, 300).Draw(rt, "taken")
		case 4:
			// the output of a same-seed generator handed over in another order (the interface takes a set)
			n := count
			if n < 1 {
				n = 1
			}
			if n > 5000 {
				n = 5000
			}
			taken = ring.NewRandomTokenGeneratorWithSeed(seed).GenerateTokens(n, nil)
			switch rapid.IntRange(0, 2).Draw(rt, "takenOrder") {
			case 0:
				slices.Reverse(taken)
			case 1:
				k := rapid.IntRange(0, len(taken)-1).Draw(rt, "rotateBy")
				taken = append(append([]uint32{}, taken[k:]...), taken[:k]...)
			default:
				for i := range taken {
					j := vx.Mix(uint64(seed)+uint64(i)*7919, len(taken))
					taken[i], taken[j] = taken[j], taken[i]
				}
			}
			sameSeed = true
			vx.Class("taken_set_is_unsorted_same_seed_output", 1)
		default:
			// dense low region and boundary values, with duplicates
			taken = rapid.SliceOfN(rapid.Uint32Range(0, 64), 0, 100).Draw(rt, "takenDense")
			taken = append(taken, 0, 1, math.MaxUint32, math.MaxUint32)
		}
		g := ring.NewRandomTokenGeneratorWithSeed(seed)
		got := g.GenerateTokens(count, taken)
		vx.Eval(1)
		if sameSeed || count >= 100000 {
			vx.NonTrivial(vx.FP("rand", seed, count, len(taken), sameSeed))
		}
		if vx.WantSample("random_request") {
			vx.Sample("random_request", map[string]any{"seed": seed, "count": count, "taken": len(taken), "taken_is_same_seed_output": sameSeed})
		}
		want := count
		if want < 0 {
			want = 0
		}
		if len(got) != want {
			rt.Fatalf("requested %d tokens, got %d", count, len(got))
		}
		if err := checkSortedUnique(got); err != nil {
			rt.Fatalf("%v", err)
		}
		tk := map[uint32]bool{}
		for _, x := range taken {
			tk[x] = true
		}
		for _, x := range got {
			if tk[x] {
				rt.Fatalf("token %d is in the taken set", x)
			}
		}
		// a second request on the same generator with the first result taken must not repeat any
		if count > 0 && count <= 2000 {
			again := g.GenerateTokens(count, append(append([]uint32{}, taken...), got...))
			seen := map[uint32]bool{}
			for _, x := range got {
				seen[x] = true
			}
			for _, x := range again {
				if seen[x] || tk[x] {
					rt.Fatalf("second request returned taken token %d", x)
				}
			}
			if len(again) != count {
				rt.Fatalf("second request: requested %d got %d", count, len(again))
			}
		}
	})
}

// spreadZone generates instances 0..n-1 of one zone and checks every invariant for every prefix.
func spreadZone(t *testing.T, zone, n int) {
	type tk struct {
		t    uint32
		inst int32
	}
	var all []tk
	seen := map[uint32]int32{}
	own := make([]float64, 0, n)
	worst, worstN := 0.0, 0
	for i := 0; i < n; i++ {
		g := ring.NewSpreadMinimizingTokenGeneratorForInstanceAndZoneID("ingester-zone-x-", i, zone, false)
		toks := g.GenerateTokens(512, nil)
		vx.Eval(1)
		if len(toks) != 512 {
			t.Fatalf("zone %d instance %d: %d tokens, want 512", zone, i, len(toks))
		}
		if err := checkSortedUnique(toks); err != nil {
			t.Fatalf("zone %d instance %d: %v", zone, i, err)
		}
		add := make([]tk, 0, 512)
		for _, x := range toks {
			if int(x%8) != zone {
				t.Fatalf("zone %d instance %d: token %d is not congruent to the zone index modulo 8", zone, i, x)
			}
			if o, dup := seen[x]; dup {
				t.Fatalf("zone %d: token %d of instance %d is also a token of instance %d", zone, x, i, o)
			}
			seen[x] = int32(i)
			add = append(add, tk{x, int32(i)})
		}
		// purity: another generator object (other prefix, other canJoin flag) yields the same tokens
		if i%7 == 0 || i < 4 {
			g2 := ring.NewSpreadMinimizingTokenGeneratorForInstanceAndZoneID("other-", i, zone, true)
			t2 := g2.GenerateTokens(512, nil)
			if fmt.Sprint(toks) != fmt.Sprint(t2) {
				t.Fatalf("zone %d instance %d: two generator objects disagree", zone, i)
			}
			vx.Class("purity_checks", 1)
		}
		// merge (both sorted)
		merged := make([]tk, 0, len(all)+len(add))
		a, b := 0, 0
		for a < len(all) || b < len(add) {
			if b >= len(add) || (a < len(all) && all[a].t < add[b].t) {
				merged = append(merged, all[a])
				a++
			} else {
				merged = append(merged, add[b])
				b++
			}
		}
		all = merged
		own = append(own, 0)
		for k := range own {
			own[k] = 0
		}
		for k, e := range all {
			prev := all[(k+len(all)-1)%len(all)].t
			var d float64
			if e.t > prev {
				d = float64(e.t - prev)
			} else {
				d = float64(uint64(e.t) + (1 << 32) - uint64(prev))
			}
			own[e.inst] += d
		}
		mn, mx := math.MaxFloat64, 0.0
		for _, o := range own {
			mn = math.Min(mn, o)
			mx = math.Max(mx, o)
		}
		spread := 100 * (1 - mn/mx)
		if spread > worst {
			worst, worstN = spread, i+1
		}
		if i >= 1 {
			vx.NonTrivial(vx.FP("prefix", zone, i+1))
		}
		if spread >= 1 {
			t.Fatalf("zone %d: with %d instances the ownership spread is %.4f%% (min %.0f max %.0f), not within one percent", zone, i+1, spread, mn, mx)
		}
	}
	vx.Note("zone %d: worst spread over prefixes 1..%d = %.4f%% at n=%d", zone, n, worst, worstN)
	vx.Sample("spread_zone", map[string]any{"zone": zone, "instances": n, "worst_spread_percent": worst, "at_prefix": worstN})
}

// TestSpreadAttribution uses the attribution a generator for instance n computes for all instances
// 0..n of its zone (hook): it must agree with what the generators of those instances return
// themselves ("the same tokens whoever computes them"), and the spread over the whole zone and over
// sampled prefixes must stay within one percent — for zone sizes far beyond TestSpreadPrefixes' quick range.
func TestSpreadAttribution(t *testing.T) {
	sizes := []int{2, 3, 17, 150, 511, 512, 513, 1000, 1111, 1112, 1113, 1200, 1300, 1500, 1777, 2000}
	if vx.Thorough() {
		for n := 1100; n <= 2000; n += 37 {
			sizes = append(sizes, n)
		}
	}
	idx := 0
	for _, n := range sizes {
		for zone := 0; zone < 8; zone++ {
			idx++
			if !vx.Mine(idx) || (!vx.Thorough() && (zone+n)%4 != 0) {
				continue
			}
			g := ring.NewSpreadMinimizingTokenGeneratorForInstanceAndZoneID("ingester-zone-x-", n-1, zone, false)
			by, err := g.VerifTokensByInstanceID()
			if err != nil {
				t.Fatalf("zone %d, %d instances: %v", zone, n, err)
			}
			vx.Eval(1)
			vx.NonTrivial(vx.FP("attribution", zone, n))
			if len(by) != n {
				t.Fatalf("zone %d: the generator of instance %d attributes tokens to %d instances, want %d", zone, n-1, len(by), n)
			}
			type tk struct {
				t    uint32
				inst int
			}
			var all []tk
			seen := map[uint32]int{}
			for i := 0; i < n; i++ {
				toks := by[i]
				if len(toks) != 512 {
					t.Fatalf("zone %d, %d instances: instance %d is attributed %d tokens, want 512", zone, n, i, len(toks))
				}
				for _, x := range toks {
					if int(x%8) != zone {
						t.Fatalf("zone %d instance %d: token %d is not congruent to the zone index modulo 8", zone, i, x)
					}
					if o, dup := seen[x]; dup {
						t.Fatalf("zone %d, %d instances: token %d is attributed to instances %d and %d", zone, n, x, o, i)
					}
					seen[x] = i
					all = append(all, tk{x, i})
				}
			}
			// whoever computes them: the own generators of sampled instances return the attributed tokens
			for _, k := range []int{0, 1, n / 3, n / 2, n - 2, n - 1} {
				if k < 0 || k >= n || (k > 300 && !vx.Thorough() && k != n-1) {
					continue
				}
				own := ring.NewSpreadMinimizingTokenGeneratorForInstanceAndZoneID("other-", k, zone, true).GenerateTokens(512, nil)
				want := append(ring.Tokens{}, by[k]...)
				slices.Sort(want)
				if fmt.Sprint(own) != fmt.Sprint(want) {
					t.Fatalf("zone %d: instance %d computes %v... for itself, the generator of instance %d attributes %v... to it", zone, k, head(own), n-1, head(want))
				}
				vx.Class("attribution_agrees_with_own_generator", 1)
			}
			sort.Slice(all, func(a, b int) bool { return all[a].t < all[b].t })
			// spread for the whole zone and for sampled prefixes (a prefix = the instances with a smaller index)
			for _, m := range []int{n, n - 1, n * 9 / 10, n * 3 / 4} {
				if m < 2 {
					continue
				}
				own := make([]float64, m)
				var prev uint32
				first := true
				var firstTok uint32
				var lastInst int
				for _, e := range all {
					if e.inst >= m {
						continue
					}
					if first {
						first, firstTok, prev = false, e.t, e.t
						lastInst = e.inst
						continue
					}
					own[e.inst] += float64(e.t - prev)
					prev = e.t
				}
				_ = lastInst
				// the first token of the circle owns the wrap-around range
				for _, e := range all {
					if e.inst < m {
						own[e.inst] += float64(uint64(firstTok) + (1 << 32) - uint64(prev))
						break
					}
				}
				mn, mx := math.MaxFloat64, 0.0
				for _, o := range own {
					mn = math.Min(mn, o)
					mx = math.Max(mx, o)
				}
				spread := 100 * (1 - mn/mx)
				vx.Class("zone_spreads_checked", 1)
				if spread >= 1 {
					t.Fatalf("zone %d: with the first %d of %d instances the ownership spread is %.4f%% (min %.0f max %.0f), not within one percent", zone, m, n, spread, mn, mx)
				}
				if m == n && vx.WantSample("zone_attribution") {
					vx.Sample("zone_attribution", map[string]any{"zone": zone, "instances": n, "spread_percent": spread})
				}
			}
		}
	}
}

// TestSpreadZoneNames: the generator built from instance and zone *names* finds the zone index in the
// sorted zone list, whatever order the caller configured the zones in: two members configured with
// differently ordered lists agree on everybody's tokens.
func TestSpreadZoneNames(t *testing.T) {
	rapid.Check(t, func(rt *rapid.T) {
		nz := rapid.IntRange(1, 8).Draw(rt, "zones")
		var zones []string
		for z := 0; z < nz; z++ {
			zones = append(zones, fmt.Sprintf("zone-%c", 'a'+z))
		}
		perm := rapid.Permutation(zones).Draw(rt, "configuredOrder")
		zi := rapid.IntRange(0, nz-1).Draw(rt, "zone")
		inst := rapid.IntRange(0, vx.Pick(20, 120)).Draw(rt, "instance")
		name := fmt.Sprintf("ingester-%s-%d", zones[zi], inst)
		g, err := ring.NewSpreadMinimizingTokenGenerator(name, zones[zi], perm, rapid.Bool().Draw(rt, "canJoin"))
		if err != nil {
			rt.Fatalf("NewSpreadMinimizingTokenGenerator(%q, %q, %v): %v", name, zones[zi], perm, err)
		}
		got := g.GenerateTokens(512, nil)
		want := ring.NewSpreadMinimizingTokenGeneratorForInstanceAndZoneID("x-", inst, zi, false).GenerateTokens(512, nil)
		vx.Eval(1)
		if !slices.IsSorted(perm) {
			vx.NonTrivial(vx.FP("zonenames", fmt.Sprint(perm), zi, inst))
		}
		if fmt.Sprint(got) != fmt.Sprint(want) {
			rt.Fatalf("instance %q with zones configured as %v: tokens %v... differ from those of instance %d of zone index %d (%v...); token %% 8 = %d", name, perm, head(got), inst, zi, head(want), got[0]%8)
		}
	})
}

func TestSpreadPrefixes(t *testing.T) {
	n := vx.Pick(150, 2000)
	if vx.Thorough() {
		t.Logf("deadline-free thorough run: %d instances per zone", n)
	}
	for zone := 0; zone < 8; zone++ {
		if !vx.Mine(zone) {
			continue
		}
		start := time.Now()
		spreadZone(t, zone, n)
		t.Logf("zone %d done in %v", zone, time.Since(start))
	}
	vx.Exhaustive(fmt.Sprintf("spread-minimising generator: every instance index 0..%d x zone index 0..7, every prefix", n-1))
}

// TestSpreadRequestsRapid: GenerateTokens(count, taken) = the first count reserved tokens not in taken.
func TestSpreadRequestsRapid(t *testing.T) {
	cache := map[[2]int][]uint32{}
	rapid.Check(t, func(rt *rapid.T) {
		inst := rapid.IntRange(0, vx.Pick(60, 400)).Draw(rt, "instance")
		zone := rapid.IntRange(0, 7).Draw(rt, "zone")
		count := rapid.IntRange(-1, 600).Draw(rt, "count")
		g := ring.NewSpreadMinimizingTokenGeneratorForInstanceAndZoneID("p-", inst, zone, rapid.Bool().Draw(rt, "canJoin"))
		reserved, ok := cache[[2]int{inst, zone}]
		if !ok {
			reserved = ring.NewSpreadMinimizingTokenGeneratorForInstanceAndZoneID("q-", inst, zone, false).GenerateTokens(512, nil)
			cache[[2]int{inst, zone}] = reserved
		}
		if len(reserved) != 512 {
			rt.Fatalf("instance %d zone %d: %d reserved tokens", inst, zone, len(reserved))
		}
		var taken []uint32
		for _, ix := range rapid.SliceOfN(rapid.IntRange(0, 511), 0, 520).Draw(rt, "takenIdx") {
			taken = append(taken, reserved[ix])
		}
		taken = append(taken, rapid.SliceOfN(rapid.Uint32(), 0, 20).Draw(rt, "takenOther")...)
		got := g.GenerateTokens(count, taken)
		vx.Eval(1)
		vx.NonTrivial(vx.FP("req", inst, zone, count, fmt.Sprint(taken)))
		tk := map[uint32]bool{}
		for _, x := range taken {
			tk[x] = true
		}
		var want []uint32
		for _, x := range reserved {
			if len(want) >= count {
				break
			}
			if !tk[x] {
				want = append(want, x)
			}
		}
		if fmt.Sprint([]uint32(got)) != fmt.Sprint(want) && !(len(got) == 0 && len(want) == 0) {
			rt.Fatalf("instance %d zone %d count %d taken %d: got %d tokens %v..., want %d tokens %v...", inst, zone, count, len(taken), len(got), head(got), len(want), head(want))
		}
		// the result belongs to the caller: whatever it does with the slice (lifecyclers sort, truncate and
		// append to token slices) must not change what the same generator object answers later
		if rapid.Bool().Draw(rt, "callerScribbles") && len(got) > 0 {
			for i := range got {
				got[i] = got[i]*2654435761 + 11
			}
			_ = append(got[:len(got)/2], 7, 7, 7)
			again := g.GenerateTokens(count, taken)
			vx.Class("second_request_after_the_caller_changed_the_first_result", 1)
			if fmt.Sprint([]uint32(again)) != fmt.Sprint(want) && !(len(again) == 0 && len(want) == 0) {
				rt.Fatalf("instance %d zone %d count %d: after the caller overwrote the slice it was given, the same generator returns %v..., want %v...", inst, zone, count, head(again), head(want))
			}
			again2 := g.GenerateTokens(512, nil)
			if fmt.Sprint([]uint32(again2)) != fmt.Sprint(reserved) {
				rt.Fatalf("instance %d zone %d: after the caller overwrote a result, the generator's reserved tokens changed: %v..., want %v...", inst, zone, head(again2), head(reserved))
			}
		}
		// a second attempt on the same generator object (a lifecycler whose write lost a race asks again with
		// the ring as it is now): the taken list differs from the first one in a few places only, possibly
		// with the same length and the same ends
		if len(taken) >= 3 && rapid.Bool().Draw(rt, "secondAttempt") {
			taken2 := append([]uint32{}, taken...)
			for k := rapid.IntRange(1, 3).Draw(rt, "changedPlaces"); k > 0; k-- {
				taken2[rapid.IntRange(1, len(taken2)-2).Draw(rt, "changedAt")] = reserved[rapid.IntRange(0, 511).Draw(rt, "changedTo")]
			}
			tk2 := map[uint32]bool{}
			for _, x := range taken2 {
				tk2[x] = true
			}
			var want2 []uint32
			for _, x := range reserved {
				if len(want2) >= count {
					break
				}
				if !tk2[x] {
					want2 = append(want2, x)
				}
			}
			got2 := g.GenerateTokens(count, taken2)
			vx.Class("second_attempt_with_a_taken_list_changed_in_the_middle", 1)
			if fmt.Sprint([]uint32(got2)) != fmt.Sprint(want2) && !(len(got2) == 0 && len(want2) == 0) {
				rt.Fatalf("instance %d zone %d count %d: second attempt on the same generator with a taken list of the same length changed in the middle: got %d tokens %v..., want %d tokens %v...", inst, zone, count, len(got2), head(got2), len(want2), head(want2))
			}
		}
		if vx.WantSample("spread_request") {
			vx.Sample("spread_request", map[string]any{"instance": inst, "zone": zone, "count": count, "taken": len(taken), "returned": len(got)})
		}
	})
}

func head(x []uint32) []uint32 {
	if len(x) > 6 {
		return x[:6]
	}
	return x
}

// TestPartitionTokens: partition rings built by AddPartition(0..n): 512 sorted tokens each, never shared.
func TestPartitionTokens(t *testing.T) {
	n := vx.Pick(120, 600)
	d := ring.NewPartitionRingDesc()
	seen := map[uint32]int32{}
	for p := int32(0); p < int32(n); p++ {
		d.AddPartition(p, ring.PartitionActive, time.Unix(100, 0))
		toks := d.Partitions[p].Tokens
		vx.Eval(1)
		vx.NonTrivial(vx.FP("partition", p))
		if len(toks) != 512 {
			t.Fatalf("partition %d: %d tokens", p, len(toks))
		}
		if err := checkSortedUnique(toks); err != nil {
			t.Fatalf("partition %d: %v", p, err)
		}
		for _, x := range toks {
			if o, dup := seen[x]; dup {
				t.Fatalf("token %d of partition %d also belongs to partition %d", x, p, o)
			}
			seen[x] = p
		}
		ref := ring.NewSpreadMinimizingTokenGeneratorForInstanceAndZoneID("zz-", int(p), 0, true).GenerateTokens(512, nil)
		if fmt.Sprint([]uint32(ref)) != fmt.Sprint(toks) {
			t.Fatalf("partition %d: tokens differ from the spread-minimising tokens of instance %d zone 0", p, p)
		}
	}
	// adding a partition that is already there (e.g. to re-register it in another state) gives it the
	// same tokens again: they are a function of the index, not of what the ring holds
	for _, p := range []int32{0, 1, int32(n / 2), int32(n - 1)} {
		before := fmt.Sprint(d.Partitions[p].Tokens)
		d.AddPartition(p, ring.PartitionPending, time.Unix(200, 0))
		vx.Eval(1)
		if got := fmt.Sprint(d.Partitions[p].Tokens); got != before {
			t.Fatalf("partition %d added a second time holds %d tokens, which differ from the %d it held", p, len(d.Partitions[p].Tokens), 512)
		}
	}
	// a partition ring over them must build and route
	pr, err := ring.NewPartitionRing(*d)
	if err != nil {
		t.Fatalf("NewPartitionRing: %v", err)
	}
	ids := pr.PartitionIDs()
	sort.Slice(ids, func(a, b int) bool { return ids[a] < ids[b] })
	if len(ids) != n {
		t.Fatalf("%d partitions in the ring, want %d", len(ids), n)
	}
}
