//go:build verif

// Verification hook for package kv/consul (see ml.go for how the hook files are injected).
package consul

// VerifResetIndex makes the in-memory store's index start again from zero, as the store's own tests do to
// simulate a Consul server whose index went backwards (a snapshot restore); ok=false if c is not backed
// by the in-memory store.
func VerifResetIndex(c *Client) bool {
	m, ok := c.kv.(*mockKV)
	if ok {
		m.ResetIndex()
	}
	return ok
}
