//go:build verif

// Verification hooks for package kv/memberlist. This file lives in /verif/hooks and is mapped into
// the package at build time with `go test -tags verif -overlay /verif/hooks/overlay.json`; it only
// adds code and is never part of a build without the tag.
package memberlist

import (
	"context"
	"time"

	"github.com/go-kit/log"
	"github.com/hashicorp/memberlist"
	"github.com/prometheus/client_golang/prometheus"

	"github.com/grafana/dskit/services"
)

// NewDetachedKV builds a KV whose service never creates a memberlist instance or a transport: the
// caller is the network and drives the exported delegate methods (GetBroadcasts, NotifyMsg,
// LocalState, MergeRemoteState). Starting = create the two broadcast queues and mark the delegate
// ready; running = the same periodic duties as KV.running minus joining; stopping = close shutdown.
func NewDetachedKV(cfg KVConfig, logger log.Logger, reg prometheus.Registerer, numNodes func() int) *KV {
	m := NewKV(cfg, logger, nil, reg)
	m.NamedService = services.NewBasicService(func(context.Context) error {
		m.localBroadcasts = &memberlist.TransmitLimitedQueue{NumNodes: numNodes, RetransmitMult: cfg.RetransmitMult}
		m.gossipBroadcasts = &memberlist.TransmitLimitedQueue{NumNodes: numNodes, RetransmitMult: cfg.RetransmitMult}
		m.delegateReady.Store(true)
		return nil
	}, func(ctx context.Context) error {
		if m.cfg.NotifyInterval > 0 {
			notifTicker := time.NewTicker(m.cfg.NotifyInterval)
			defer notifTicker.Stop()
			go m.monitorKeyNotifications(ctx, notifTicker.C)
		}
		var obsolete <-chan time.Time
		if m.cfg.ObsoleteEntriesTimeout > 0 {
			t := time.NewTicker(m.cfg.ObsoleteEntriesTimeout)
			defer t.Stop()
			obsolete = t.C
		}
		for {
			select {
			case <-obsolete:
				m.cleanupObsoleteEntries()
			case <-ctx.Done():
				return nil
			}
		}
	}, func(error) error {
		close(m.shutdown)
		return nil
	}).WithName("memberlist_kv_detached")
	return m
}

// VerifCleanupObsoleteEntries runs the periodic cleanup now.
func (m *KV) VerifCleanupObsoleteEntries() { m.cleanupObsoleteEntries() }

// VerifQueued returns the number of queued local and forwarded broadcasts.
func (m *KV) VerifQueued() (local, gossip int) {
	if !m.delegateReady.Load() {
		return 0, 0
	}
	return m.localBroadcasts.NumQueued(), m.gossipBroadcasts.NumQueued()
}

// VerifSetMaxCasRetries overrides the retry budget (KV tests of the repository do the same).
func (m *KV) VerifSetMaxCasRetries(n int) { m.maxCasRetries = n }

// VerifBroadcastInvalidates evaluates the real supersede rule of queued broadcasts.
func VerifBroadcastInvalidates(key string, content []string, version uint, oldKey string, oldContent []string, oldVersion uint) bool {
	n := ringBroadcast{key: key, content: content, version: version}
	o := ringBroadcast{key: oldKey, content: oldContent, version: oldVersion}
	return n.Invalidates(o)
}
