//go:build verif

// Verification hooks for package kv (see ml.go for how they are injected).
package kv

import (
	"github.com/go-kit/log"
	"github.com/prometheus/client_golang/prometheus"
)

// VerifNewMultiClient builds a MultiClient over two harness-supplied clients (kvclient is unexported).
func VerifNewMultiClient(cfg MultiConfig, primaryName string, primary Client, secondaryName string, secondary Client, logger log.Logger, reg prometheus.Registerer) *MultiClient {
	return NewMultiClient(cfg, []kvclient{{client: primary, name: primaryName}, {client: secondary, name: secondaryName}}, logger, reg)
}

// VerifMetricsClient wraps a client with the (unexported) metrics wrapper.
func VerifMetricsClient(backend string, c Client, reg prometheus.Registerer) Client {
	return newMetricsClient(backend, c, reg)
}
