//go:build verif

package ring

// VerifTokensByInstanceID exposes the complete attribution the spread-minimising generator computes
// internally: the tokens of every instance 0..instanceID of its zone (unsorted, as computed).
func (t *SpreadMinimizingTokenGenerator) VerifTokensByInstanceID() (map[int]Tokens, error) {
	return t.generateTokensByInstanceID()
}
