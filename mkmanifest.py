#!/usr/bin/env python3
"""Regenerates MANIFEST.json: a property is claimed iff harness/<id>/plan.json exists."""
import json
import os

ROOT = os.path.dirname(os.path.abspath(__file__))

BASELINE = json.load(open("/root/.vp/BASELINE.json"))["cmd"] if os.path.exists("/root/.vp/BASELINE.json") else ""

P = {
 "C01": dict(cat="exploration", tech="property-based differential testing (rapid) against a reference ring walk + exhaustive small-layout sweep + metamorphic add/remove relation",
   text="Every generated ring (boundary-biased tokens incl. 0, 1, 2^32-1, token-less instances, all states, exact heartbeat ages under a frozen virtual clock, RF 1..5, zones on/off) is looked up at every boundary key with the four operations and compared with a reference walk and majority arithmetic written from the statement; an exhaustive sweep of small token layouts and a metamorphic add/remove-one-instance relation complete it. Generated search is the right level: the property is a pure function with a ten-line specification, and the bugs it admits are boundary/off-by-one bugs that boundary-biased generation reaches.",
   note="Trusts: the reference walk in harness/c01 (written from the property text); zone-awareness is only exercised with every instance zoned; the ring client is fed through the exported constructor with a harness kv.Client."),
 "C02": dict(cat="exploration", tech="property-based testing (rapid) with explicit enumeration of all minimal ack sets x answer sets as oracle",
   text="For generated rings and keys both lookups are taken at one frozen instant and every minimal acknowledging subset allowed by the write tolerance is intersected with every minimal answering subset (instances or whole zones) allowed by the read tolerance; no closed formula is trusted.",
   note="Tolerances are interpreted exactly as ring/batch.go and the result trackers do (C10/C11 check those executors)."),
 "C03": dict(cat="exploration", tech="exhaustive small-universe enumeration + property-based testing (rapid) against an LWW reference model and the CRDT laws",
   text="All ordered pairs (and triples, tiered) of descriptors over a small universe realising the stated preconditions are merged and compared with a last-writer-wins reference model; idempotence, commutativity, associativity, delta sufficiency and nil-change laws are checked on the implementation; random large update sets are delivered in permuted, regrouped and duplicated form to several replicas.",
   note="Preconditions of the statement are built into the generator: content is a function of (id, timestamp), token pools are disjoint per instance, timestamps >= 1."),
 "C04": dict(cat="exploration", tech="stateful property-based testing (rapid state machine) with a fact-set ghost model, on descriptors and on detached gossip KV nodes under a virtual clock",
   text="Histories of heartbeats, removals on any node, arbitrarily delayed/duplicated/reordered deliveries, full-state exchanges, reads and clock steps are generated; after every step each replica must equal the LWW ghost model and the direct invariants (no resurrection, tombstones never visible, forwarded, GC only when old) must hold.",
   note="Single writer per instance; restarted writers wait >= 1 s; hashicorp/memberlist's transport is replaced by the harness (hook NewDetachedKV)."),
 "C05": dict(cat="exploration", tech="stateful property-based testing (rapid) with inductive invariants and a per-resolution winner oracle; every reached state queried through a real ring client",
   text="Merge histories over a 7-token space where collisions are the norm (unsorted/duplicated incoming lists, all states, local CAS) are generated; after each step the invariants (one live owner per token, sorted unique lists, LEFT token-less), the winner rule and determinism are checked and the state is fed to a ring client whose lookups must neither error with inconsistent-token information nor panic.",
   note="No cross-replica token equality is asserted under the 'tokens unchanged' shortcut (see DESIGN C05-S)."),
 "C06": dict(cat="exploration", tech="stateful property-based testing (rapid state machine) of 2..6 detached gossip nodes with a harness-owned adversarial network and virtual clock; byte-level mutation fuzzing of inbound messages",
   text="CAS workloads, gossip rounds, push/pull, drop/duplicate/delay/reorder/corrupt, partitions, heals, watchers and restarts are generated as one history; after a bounded heal-and-flow phase all nodes must agree, equal the LWW join of surviving facts, watchers must have seen the final value; malformed input must change nothing and never crash.",
   note="hashicorp/memberlist dissemination and TCP transport are replaced by the harness; 'eventually' is decided as 'within 10 loss-free sweeps'."),
 "C07": dict(cat="exploration", tech="schedule-owning property-based testing (rapid): gated CAS functions released in generated orders, chain oracle on committed attempts; 3 backends x wrappers",
   text="Every CAS function is gated so the harness decides the order of reads and conditional writes; generated start/release schedules over 2..6 callers are checked with a chain oracle (each success saw the previous success's value; final value reflects exactly the successes).",
   note="Interleavings inside a backend's mutex-protected section are sampled by an un-gated stress run, not enumerated."),
 "C08": dict(cat="exploration", tech="stateful property-based testing (rapid) of 1..5 lifecyclers on a recording store under a virtual clock; every recorded CAS checked against write-attribution invariants",
   text="Op orders (start, stop, restart, state changes, read-only toggles, clock steps) over both lifecycler kinds and generated configs; every recorded ring version is attributed to its writer and checked against the own-entry, state-edge, timestamp, registration-time, token and readiness rules.",
   note="Virtual clock (testing/synctest); store = the repository's in-memory Consul client behind a harness recorder."),
 "C09": dict(cat="fault_enumeration", tech="exhaustive crash-point enumeration (before/after commit of every store write) x generated scenarios/configs, fault windows and wipes; byte-exact tokens-file write cuts",
   text="Each scenario is run once to count its store writes, then re-run with a crash injected before and after the commit of every write, followed by a new incarnation whose recovery predicates are checked; store fault windows, wipes and tokens-file write cuts at every byte are enumerated.",
   note="A crash is modelled at store-write granularity (the property's quantifier)."),
 "C10": dict(cat="fault_enumeration", tech="exhaustive enumeration of outcome assignments x completion orders x cancellation points for small batches + property-based testing (rapid) beyond, against a reference tracker window model",
   text="Replica calls are gated; the harness releases them one by one in every order with every outcome assignment and observes after each release whether and what DoBatch returned, against the allowed-to-succeed / allowed-to-fail / must-have-failed window of a reference tracker.",
   note="Replicas have unique addresses; 'immediately' = at the quiescent point after the offending completion."),
 "C11": dict(cat="fault_enumeration", tech="exhaustive enumeration of outcomes x completion orders x cancel points for small sets + property-based testing (rapid), against a reference quorum tracker",
   text="Calls are gated and released in generated/enumerated orders under a virtual clock (hedging); return instant, result set, error identity, start discipline, cleanup-exactly-once and context cancellation are compared with a reference model.",
   note="Legacy ReplicationSet.Do documents 'all results' and is checked for everything but the complete-zone clause."),
 "C12": dict(cat="exploration", tech="property-based testing (rapid): determinism, size formula, monotonicity, +-1 consistency metamorphic relations; look-back superset over generated histories; partition-ring variant",
   text="Generated rings/identifiers/sizes are checked for determinism, the per-zone size formula, read-only exclusion, monotonicity and +-1 consistency; look-back results must contain every historical shard member over generated join/leave/read-only histories.",
   note="Instances have >= 1 token; +-1 consistency and look-back asserted with the zone set fixed."),
 "C13": dict(cat="exploration", tech="stateful differential property-based testing (rapid): long-lived cached client vs fresh cache-less client after every update, all read methods",
   text="Update histories of every listed kind are pushed to a long-lived client with caches on, with queries at non-monotonic times in between; after every step every read method must agree with a client freshly built from the latest descriptor.",
   note="Fresh client built by the same code with caches disabled is the oracle (differential)."),
 "C14": dict(cat="exploration", tech="exhaustive small-layout enumeration + property-based testing (rapid): IncludesKey <=> lookup ownership, and tiling of [0,2^32)",
   text="Every assignment of 8 boundary tokens {0,1,2,mid,mid,2^32-3..2^32-1} to <= 3 owners (instance rings per zone, partition rings) is enumerated and random large rings are generated; for each boundary key IncludesKey must coincide with the lookup's owner and the ranges must tile the key space.",
   note="Instances ACTIVE and fresh so lookups never filter; partition rings all-active (documented precondition)."),
 "C15": dict(cat="exploration", tech="property-based testing (rapid) against a reference successor walk; stateful histories of editor/lifecycler actions with legality check of every recorded ring version",
   text="Partition rings in all state mixes are routed at boundary keys against a reference walk; histories of lifecycler/editor actions under a virtual clock are recorded and every version transition is checked for legality; owner-based replication sets are compared with an explicit oracle.",
   note="Virtual clock; recorder-wrapped in-memory store."),
 "C16": dict(cat="exploration", tech="property-based testing (rapid) of the token generators: uniqueness/untaken/sorted/count invariants, purity, cross-instance disjointness, congruence and per-prefix spread",
   text="Random generator: generated seeds/counts/taken sets incl. same-seed collision forcing. Spread-minimising: every (instance, zone) in range, purity across generator objects, global disjointness, congruence modulo 8, spread < 1 % for every prefix.",
   note="Spread is measured by the harness's own incremental ownership computation."),
 "C17": dict(cat="exploration", tech="exhaustive DFS over operation sequences to bounded depth + stateful property-based testing (rapid) against a reference service state machine, gated service functions under a virtual clock",
   text="The three service functions and listener callbacks are gated; every op sequence to a bounded depth (and random deeper ones) is executed against a reference FSM predicting state, call log, waiter returns, listener streams and manager aggregates.",
   note="Cross-service notification interleavings inside one quiescence step are left to the Go scheduler."),
 "C18": dict(cat="exploration", tech="exhaustive enumeration of small DAGs x target sets + property-based testing (rapid) of run-time order with gated services",
   text="All DAGs up to a node bound x every target subset are initialised and the init log checked against partial-order predicates; random DAGs with gated services, failures and stops at any step are checked on the service timeline.",
   note="Stop-order clause asserted for stops the wrapper initiates."),
 "C19": dict(cat="exploration", tech="stateful model-based property-based testing (rapid) of all 16 wrapper stacks against a map-with-expiry model; reference jump hash for server selection",
   text="Operation sequences over small key/value alphabets on every stacking order are compared with a map-with-expiry model (exact staleness bound, byte equality, completeness); the server selector is compared with a textbook jump hash over a natural sort.",
   note="Virtual clock in lock-step with the mock cache clock."),
 "C20": dict(cat="exploration", tech="exhaustive short strings + grammar-based property-based testing (rapid) + native coverage-guided fuzzing (thorough) against an independent validator; hop-chain round trips",
   text="Org-id strings from a grammar, all short strings over a hostile alphabet and id lists are resolved and compared with an independent validator and the single/multi equivalence; injection/extraction chains must preserve the id.",
   note="Independent validator written from the documented character set."),
}


def main():
    checks, na = [], []
    for pid in sorted(P):
        d = P[pid]
        if not os.path.exists(os.path.join(ROOT, "harness", pid.lower(), "plan.json")):
            na.append({"property_id": pid, "reason": "check not built yet (work in progress; planned technique: %s)" % d["tech"]})
            continue
        checks.append({
            "property_id": pid,
            "quick_cmd": "./check %s quick" % pid,
            "thorough_cmd": "./check %s thorough" % pid,
            "evidence_file": "/verif/evidence/%s.json" % pid,
            "replay_cmd_template": "./check %s --replay {path}" % pid,
            "engine": "harness/%s" % pid.lower(),
            "level_claimed": {"category": d["cat"], "text": d["text"], "design_ref": "DESIGN.md section 4, %s" % pid},
            "level_note": d["note"],
            "technique": d["tech"],
        })
    man = {
        "version": 1,
        "setup_cmd": "./setup.sh",
        "hooks": {
            "guard": "verif",
            "enable": "go test -tags verif -overlay /verif/hooks/overlay.json (hook files live in /verif/hooks and are mapped to new file names inside /repo packages at build time; nothing is committed to /repo)",
            "baseline_off_cmd": BASELINE,
            "source_commits": [],
            "add_only": True,
        },
        "engines": [
            {"name": "check", "path": "/verif/check", "serves_properties": [c["property_id"] for c in checks],
             "kind_free_text": "python driver: builds harness/<id> against /repo's working tree with go1.26.8, runs rapid / enumeration tests (sharded in thorough), merges evidence, maps failures to VIOLATION lines"},
            {"name": "harness", "path": "/verif/harness", "serves_properties": [c["property_id"] for c in checks],
             "kind_free_text": "Go module: one test package per property using pgregory.net/rapid v1.3.0, testing/synctest bubbles and native fuzzing"},
        ],
        "checks": checks,
        "notes": "Property-based testing and fuzzing only. Fixed defects and known findings: /verif/known_findings.json.",
        "not_applicable": na,
    }
    with open(os.path.join(ROOT, "MANIFEST.json"), "w") as f:
        json.dump(man, f, indent=1)
        f.write("\n")


if __name__ == "__main__":
    main()
