#!/bin/sh
# setup_cmd: offline; regenerates harness/go.mod + go.sum from /repo and warms the Go build cache.
cd "$(dirname "$0")" && exec ./check setup
