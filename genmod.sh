#!/bin/sh
# Regenerates /verif/harness/go.mod and go.sum from /repo's (idempotent, atomic).
set -e
H=/verif/harness
tmp=$(mktemp -d "$H/.genmod.XXXXXX")
sed -e 's#^module .*#module verifharness#' /repo/go.mod > "$tmp/go.mod"
cat >> "$tmp/go.mod" <<'EOM'

require github.com/grafana/dskit v0.0.0

require pgregory.net/rapid v1.3.0

replace github.com/grafana/dskit => /repo
EOM
cat /repo/go.sum "$H/rapid.sum" > "$tmp/go.sum"
for f in go.mod go.sum; do
  if ! cmp -s "$tmp/$f" "$H/$f"; then mv "$tmp/$f" "$H/$f"; fi
done
rm -rf "$tmp"
